// W1 — API histories against the shadow ownership graph, list model and reference encoder
// (DESIGN.md §3.7, §4.3–4.5, §5.C03/C04/C11/C12/C13). Also the engine under the W2 fault sweep (C06).
#pragma once
#include "sim.hpp"
#include "impl.hpp"
#include <set>
#include <map>
#include <functional>

enum OpCode {
  OP_NEW_INT = 0, OP_NEW_FLOAT, OP_NEW_CTRL, OP_NEW_BSTR, OP_NEW_TSTR, OP_NEW_INDEF_BSTR, OP_NEW_INDEF_TSTR,
  OP_NEW_DEF_ARRAY, OP_NEW_INDEF_ARRAY, OP_NEW_DEF_MAP, OP_NEW_INDEF_MAP, OP_NEW_TAG, OP_BUILD_TAG,
  OP_PUSH, OP_PUSH_MANY, OP_SET, OP_REPLACE, OP_GET, OP_MAP_ADD, OP_ADD_CHUNK, OP_TAG_SET, OP_TAG_ITEM,
  OP_COPY, OP_LOAD, OP_LOAD_RAW, OP_SERIALIZE_ALLOC, OP_SERIALIZE, OP_SIZE, OP_DESCRIBE,
  OP_INCREF, OP_DECREF, OP_INTERMEDIATE_DECREF, OP_SETVAL, OP_MARK, OP_GETTERS, OP_RESET_HANDLE, OP_BIG, OP__COUNT
};
const char* op_name(int code);

static const uint64_t SEL_LAST = ((uint64_t)1 << 55) - 1;   // handle selector meaning 'the most recently created candidate'
struct HOp { int code = 0; uint64_t a = 0, b = 0, c = 0, d = 0; int fk = 0; uint64_t fkk = 0; };
HOp hop_from_json(const J& j);
J hop_to_json(const HOp& o);

struct HNode {
  int id = 0; MKind kind = MK_UINT; int width = 1; uint64_t val = 0; bool definite = true; uint64_t capacity = 0;
  std::vector<uint8_t> bytes; std::vector<int> kids;
  cbor_item_t* impl = nullptr; int64_t ext = 0, in_edges = 0; bool alive = false;
  uint64_t reallocs = 0, inserts = 0;      // growth accounting (C12)
  double min_growth = 1e9;                 // smallest capacity ratio of any growth step seen on this container's table
};

struct OpResult {
  bool executed = false;       // preconditions met, API called
  bool refused = false;        // an injected refusal fired inside the op
  bool reported_failure = false;   // the op reported failure through its documented channel
  uint64_t requests = 0;
};

class Hist {
 public:
  std::vector<HNode> nodes;
  std::vector<int> pool;                 // one entry per reference the client holds
  bool seen_shared = false;              // some item was referenced from two places at once
  bool light = false;                    // build only: no getter-based comparison with the model after each step (C18 must not warm the tree up)
  bool exact_fault = false;              // W2: use the fault index as given (no modulo)
  bool image_check = false;              // C06: compare byte images of all pre-existing blocks around a refused op
  uint64_t shared_releases = 0, items_released = 0, copies = 0, copy_then_touched = 0, refusals_capacity = 0, refusals_index = 0, inserts_ok = 0, cascades3 = 0;
  uint64_t serial_checked_nontrivial = 0, roundtrips = 0, fired_faults = 0, failed_after_move = 0, tag_repointed = 0, replace_last_ref = 0;
  std::set<int> copy_roots, copy_sources;

  void measure(int id, uint64_t& bytes, uint64_t& count_nodes) const;   // encoded size / node count of the tree under id (saturating)
  bool small_enough(int id, uint64_t max_bytes, uint64_t max_nodes) const { uint64_t b = 0, n = 0; measure(id, b, n); return b <= max_bytes && n <= max_nodes; }
  uint64_t occurrences(int id) const;    // how many times the node occurs in the tree expansions of all client handles (saturating)
  OpResult run_op(const HOp& op);        // executes one op with all oracles
  uint64_t dry_requests(const HOp& op);  // requests the op would make fault-free (only for ops that do not mutate existing state; else ~0)
  void final_checks();                   // serialise/round-trip every root (C03)
  void drop_all(const std::vector<uint64_t>& order);   // client drops every handle; everything must be released (C04)
  int alive_nodes() const;

 private:
  int pick(unsigned mask, uint64_t sel, bool need_serialisable = false) const;   // pool index or -1
  int64_t count(int id) const { return nodes[id].ext + nodes[id].in_edges; }
  bool reaches(int from, int target) const;
  bool serialisable(int id) const;
  MV to_value(int id) const;
  int big_budget = 6;                    // how many operations on very large trees a run may still perform (keeps runs bounded)
  bool afford(int id, uint64_t max_bytes, uint64_t max_nodes) { uint64_t b = 0, n = 0; measure(id, b, n); if (b <= ((uint64_t)1 << 18) && n <= 4000) return true; if (b <= max_bytes && n <= max_nodes && big_budget > 0) { big_budget--; return true; } return false; }
  int new_node(MKind k);
  void add_edge(int parent, int child) { nodes[parent].kids.push_back(child); nodes[child].in_edges++; }
  void predict_release(int id, std::vector<int>& dying, std::map<int, int64_t>& dec) const;
  void apply_release(const std::vector<int>& dying);
  std::vector<uint64_t> owned_ids(const HNode& n, const char* props);
  int adopt_tree(cbor_item_t* it, const MV& shape, const char* props, std::set<const cbor_item_t*>& seen, const std::string& path);   // registers new nodes for a tree the library built
  bool verify(const HNode& n, const char* props, const std::string& ctx);
  void verify_all(const char* props, const std::string& ctx, int big_touched = -1);
  void check_refcounts(const char* props, const std::string& ctx);
  friend struct OpScope;
};

struct HistProfile { std::string prop; bool long_run = false; };
void gen_hist_ops(Rng& g, Rng& fr, const std::string& prop, unsigned nops, bool with_faults, J& ops_out);
