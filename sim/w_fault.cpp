// W2 — fault sweep (C06, and the MEMERROR clause of C05). DESIGN.md §3.7 W2, §5.C06.
// A scenario is run fault-free to count its N allocator requests, then re-run from scratch once per
// refuse_nth(k) and once per refuse_from(k) for every k < N (up to a cap, then the plan's explicit extra ks).
#include "hist.hpp"
#include "loadcheck.hpp"

J gen_fault(const std::string& prop, uint64_t run_seed, const std::string& tier) {
  Rng g(run_seed, "gen"), kn(run_seed, "knobs"), fr(run_seed, "fault");
  J plan = J::obj(); J knobs = J::obj();
  knobs.set("be", kn.chance(1, 5) ? (uint64_t)BE_TAG : (uint64_t)BE_DIRECT); knobs.set("rm", kn.below(2)); knobs.set("maxreq", (uint64_t)1 << 20);
  knobs.set("kcap", tier == "thorough" ? 512 : 64);
  knobs.set("fill", kn.below(4) == 0 ? kn.range(1, 2) : 0);   // fresh memory: mostly 0xAA, sometimes all-zero or all-ones
  knobs.set("fpmode", gen_fpmode(kn));   // the calling thread's floating-point environment: FTZ/DAZ in a quarter of the runs, a directed rounding mode in a quarter
  plan.set("knobs", knobs);
  bool load_scn = prop == "C05" || g.chance(1, 4);
  if (load_scn) {
    GenProfile gp; gp.max_depth = 4; gp.max_kids = 4; gp.big_len_cap = 100;
    std::vector<uint8_t> by; unsigned n = (unsigned)g.range(1, 2);
    if (g.chance(1, 400)) {
      // one very wide flat container: thousands of allocator requests, so that refusing the first, the last (N-1) and a few in between
      // reaches bookkeeping that only exists for large collections
      uint64_t cnt = g.range(9000, 40000); unsigned shape = (unsigned)g.below(4);
      if (shape == 0) ref_head(4, cnt, by); else if (shape == 1) ref_head(5, cnt, by); else by.push_back(shape == 2 ? 0x9f : 0xbf);
      uint64_t members = (shape % 2) ? 2 * cnt : cnt; for (uint64_t i = 0; i < members; i++) by.push_back((uint8_t)(i % 24));
      if (shape >= 2) by.push_back(0xff);
      n = 0;
    }
    for (unsigned i = 0; i < n; i++) gen_encode(g, gen_mv(g, gp), by);
    if (n != 0 && g.chance(1, 4) && by.size() > 1) by.resize((size_t)g.range(1, by.size() - 1));        // a truncated input also allocates before it fails
    if (g.chance(1, 8) && !by.empty()) by[g.below(by.size())] ^= (uint8_t)(1u << g.below(8));
    plan.set("scn", "load"); plan.set("hex", to_hex(by));
  } else {
    plan.set("scn", "hist");
    J pre = J::arr();
    unsigned npre = (unsigned)g.below(10);
    Rng nofault(0, "none");
    gen_hist_ops(g, nofault, "C04", npre, false, pre);
    // target: an operation that can allocate
    // operations that allocate; weighted towards those with many requests (copy / load of whole trees)
    static const int T[] = {OP_LOAD_RAW, OP_LOAD_RAW, OP_LOAD_RAW, OP_LOAD_RAW, OP_LOAD, OP_LOAD, OP_COPY, OP_COPY, OP_COPY, OP_COPY, OP_COPY, OP_COPY, OP_SERIALIZE_ALLOC, OP_SERIALIZE_ALLOC,
                            OP_PUSH, OP_PUSH, OP_SET, OP_MAP_ADD, OP_MAP_ADD, OP_ADD_CHUNK, OP_ADD_CHUNK, OP_BUILD_TAG,
                            OP_NEW_INT, OP_NEW_FLOAT, OP_NEW_CTRL, OP_NEW_BSTR, OP_NEW_TSTR, OP_NEW_INDEF_BSTR, OP_NEW_INDEF_TSTR, OP_NEW_DEF_ARRAY, OP_NEW_INDEF_ARRAY, OP_NEW_DEF_MAP, OP_NEW_INDEF_MAP, OP_NEW_TAG,
                            OP_DESCRIBE};   // makes no request on this tree (the scenario is then trivial); an implementation that needs scratch memory must survive its refusal
    int code = T[g.below(sizeof T / sizeof T[0])]; uint64_t fill_for_set = 0;
    // growth prelude: bring a fresh indefinite container to a capacity boundary so the target insert must reallocate
    if (code == OP_PUSH || code == OP_SET || code == OP_MAP_ADD || code == OP_ADD_CHUNK) {
      static const uint64_t STEPS[] = {0, 1, 2, 4, 8, 16, 32, 64};
      uint64_t fill = STEPS[g.below(8)]; fill_for_set = fill;
      HOp item; item.code = OP_NEW_INT; item.a = g.below(4); item.c = gen_u64(g); pre.push(hop_to_json(item));
      if (code == OP_PUSH || code == OP_SET) { HOp a; a.code = OP_NEW_INDEF_ARRAY; pre.push(hop_to_json(a)); if (fill) { HOp pm; pm.code = OP_PUSH_MANY; pm.a = SEL_LAST; pm.b = g.next() >> 8; pm.c = fill - 1; pre.push(hop_to_json(pm)); } }
      else if (code == OP_MAP_ADD) { HOp a; a.code = OP_NEW_INDEF_MAP; pre.push(hop_to_json(a)); for (uint64_t i = 0; i < fill; i++) { HOp ad; ad.code = OP_MAP_ADD; ad.a = SEL_LAST; ad.b = g.next() >> 8; ad.c = g.next() >> 8; pre.push(hop_to_json(ad)); } }
      else { bool bs = g.chance(1, 2); HOp s; s.code = bs ? OP_NEW_INDEF_BSTR : OP_NEW_INDEF_TSTR; pre.push(hop_to_json(s)); HOp c; c.code = bs ? OP_NEW_BSTR : OP_NEW_TSTR; c.a = g.below(20); c.b = g.next(); pre.push(hop_to_json(c)); for (uint64_t i = 0; i < fill; i++) { HOp ad; ad.code = OP_ADD_CHUNK; ad.a = SEL_LAST; ad.b = SEL_LAST; pre.push(hop_to_json(ad)); } }
    } else if (code == OP_COPY || code == OP_LOAD || code == OP_SERIALIZE_ALLOC || code == OP_DESCRIBE) {
      // make sure something substantial exists: a loaded random tree gives every shape the generator knows
      HOp l; l.code = OP_LOAD_RAW; l.c = g.next(); pre.push(hop_to_json(l));
    }
    HOp t; t.code = code; t.a = g.next() >> 8; t.b = g.next() >> 8; t.c = g.next() >> 8; t.d = g.below(16);
    switch (code) {
      case OP_NEW_INT: t.a = g.below(4); t.b = g.below(2); t.c = gen_u64(g); break;
      case OP_NEW_FLOAT: t.a = g.below(3); t.c = g.next(); break;
      case OP_NEW_CTRL: t.a = g.below(5); break;
      case OP_NEW_BSTR: case OP_NEW_TSTR: t.a = gen_len(g, 300); t.b = g.next(); break;
      case OP_NEW_DEF_ARRAY: case OP_NEW_DEF_MAP: t.a = g.below(12); break;
      case OP_NEW_TAG: case OP_BUILD_TAG: t.c = gen_u64(g); break;
      case OP_LOAD_RAW: t.c = g.next(); break;
      case OP_DESCRIBE: t.a = SEL_LAST; t.d = 0; break;
      case OP_PUSH: case OP_SET: case OP_MAP_ADD: case OP_ADD_CHUNK: t.a = SEL_LAST; if (code == OP_ADD_CHUNK) t.b = SEL_LAST; if (code == OP_SET) t.c = fill_for_set; break;   // the container created last; set at index == size appends
      default: break;
    }
    plan.set("pre", pre); plan.set("target", hop_to_json(t));
  }
  J ks = J::arr(); for (int i = 0; i < 6; i++) ks.push(fr.next() >> 16); plan.set("ks", ks);
  J drop = J::arr(); for (int i = 0; i < 40; i++) drop.push(g.below(1000)); plan.set("drop", drop);
  return plan;
}

namespace {
struct Scenario {
  const J& plan; std::vector<HOp> pre; HOp target; std::vector<uint64_t> order;
  explicit Scenario(const J& p) : plan(p) {
    for (size_t i = 0; i < p.at("pre").size(); i++) pre.push_back(hop_from_json(p.at("pre")[i]));
    target = hop_from_json(p.at("target"));
    for (size_t i = 0; i < p.at("drop").size(); i++) order.push_back(p.at("drop").iu(i));
  }
  // one complete execution of the scenario; returns what the target op did
  OpResult run(int fk, uint64_t k, bool& ok_setup) {
    sa_reset(knobs_alloc(plan));
    Hist H; H.image_check = true; H.exact_fault = true; ok_setup = true;
    for (auto& o : pre) { HOp c = o; c.fk = F_NONE; H.run_op(c); if (failed() || g_run.foreign_seen) { ok_setup = false; return OpResult(); } }
    HOp t = target; t.fk = fk; t.fkk = k;
    OpResult r = H.run_op(t);
    if (failed() || g_run.foreign_seen) return r;
    H.drop_all(order);
    if (!failed() && !g_run.foreign_seen) sa_check_integrity();
    return r;
  }
};
}

void exec_fault(const J& plan) {
  uint64_t kcap = plan.at("knobs").getu("kcap", 64);
  uint64_t fired = 0, N = 0;
  if (plan.gets("scn") == "load") {
    sa_reset(knobs_alloc(plan));
    std::vector<uint8_t> by = from_hex(plan.gets("hex"));
    LoadOpts o; o.where = "fault sweep"; o.exact_window = true;
    LoadOutcome base = checked_load(by.data(), by.size(), o, nullptr);     // fault-free configuration, checked on its own
    N = base.requests;
    // the sweep re-runs the load once per refusal point and kind: bound the total work (a deterministic function of the plan) so that
    // one scenario stays far below the watchdog even with thousands of requests per run
    { uint64_t fit = 1500000 / std::max<uint64_t>(1, N) / 2; if (fit < 8) fit = 8; if (kcap > fit) kcap = fit; }
    std::vector<uint64_t> ks; for (uint64_t k = 0; k < N && k < kcap; k++) ks.push_back(k);
    if (N > kcap) { ks.push_back(N - 1); for (size_t i = 0; i < plan.at("ks").size(); i++) ks.push_back(kcap + plan.at("ks").iu(i) % (N - kcap)); }
    for (int kind = F_NTH; kind <= F_FROM && !failed(); kind++)
      for (uint64_t k : ks) {
        if (failed() || g_run.foreign_seen) break;
        LoadOpts f = o; f.fault.kind = kind; f.fault.k = k;
        LoadOutcome r = checked_load(by.data(), by.size(), f, nullptr);
        if (r.refused) fired++;
        stat_add("injected_runs");
      }
    if (!failed() && sa_live_count() != 0) fail("C05,C06", "load-sweep-leaves-memory", fmt("%llu block(s) live after the sweep", (unsigned long long)sa_live_count()));
  } else {
    Scenario S(plan);
    bool ok; OpResult base = S.run(F_NONE, 0, ok);        // fault-free configuration, checked on its own
    if (failed() || g_run.foreign_seen || !ok || !base.executed) { g_run.nontrivial = false; return; }
    N = base.requests;
    // every injected run rebuilds the scenario from scratch (prelude included): bound requests-per-run x runs, deterministically
    { uint64_t per_run = std::max<uint64_t>(1, sa_total_requests()); uint64_t fit = 1500000 / per_run / 2; if (fit < 8) fit = 8; if (kcap > fit) { kcap = fit; stat_add("scenarios_with_reduced_sweep"); } }
    std::vector<uint64_t> ks; for (uint64_t k = 0; k < N && k < kcap; k++) ks.push_back(k);
    if (N > kcap) { ks.push_back(N - 1); for (size_t i = 0; i < plan.at("ks").size(); i++) ks.push_back(kcap + plan.at("ks").iu(i) % (N - kcap)); }
    for (int kind = F_NTH; kind <= F_FROM && !failed(); kind++)
      for (uint64_t k : ks) {
        if (failed() || g_run.foreign_seen) break;
        OpResult r = S.run(kind, k, ok);
        stat_add("injected_runs");
        if (!ok) break;
        if (r.refused) {
          fired++;
          if (!failed() && !r.reported_failure) fail("C06", "operation-succeeds-despite-refused-allocation", fmt("target %s: request %llu refused (%s) but the operation did not report failure", op_name(S.target.code), (unsigned long long)k, kind == F_NTH ? "k-th only" : "k-th and all later"));
        }
      }
  }
  stat_add("scenarios"); stat_add("sum_N", N); stat_max("max_N", N); stat_add(N == 0 ? "scenarios_N0" : N < 4 ? "scenarios_N1to3" : N < 16 ? "scenarios_N4to15" : "scenarios_N16plus");
  stat_add("refusals_fired", fired);
  g_run.nontrivial = N >= 1 && fired >= 1;
}
