// temporary stubs
#include "sim.hpp"
#define STUB(n) J gen_##n(const std::string&, uint64_t, const std::string&) { J p = J::obj(); p.set("knobs", J::obj()); return p; } void exec_##n(const J&) {}
STUB(nest)
