// Write protection of regions that must not be written while a check runs, and the fault handler
// that turns a hit into a PROTECTION-FAULT report (DESIGN.md §5.C17, §5.C18, §5.C19).
#pragma once
#include <cstddef>
#include <cstdint>
// what is running, for the report (copied; keep it short)
void prot_set_ctx(const char* what);
// the library's own writable data segment (only when the library is a shared object). Returns false when unavailable.
bool prot_lib_statics(bool readonly);
bool prot_lib_available();
// install the SIGSEGV/SIGBUS handler (all flavours except ASan, which reports crashes itself)
void prot_install_handler(void (*emit_inflight)(const char*));
