#include "recorder.hpp"
#include "sim.hpp"

namespace {
Recorder* R(void* c) { return (Recorder*)c; }
void simple(void* c, int slot, uint64_t a = 0) { sched_point(SP_CALLBACK); RecEv e; e.slot = slot; e.arg = a; R(c)->evs.push_back(std::move(e)); }
void str(void* c, int slot, cbor_data d, uint64_t len) {
  sched_point(SP_CALLBACK);
  Recorder* r = R(c); RecEv e; e.slot = slot; e.arg = len;
  e.ptr_inside = d >= r->win && d <= r->win + r->win_len && len <= (uint64_t)(r->win + r->win_len - d);
  e.ptr_off = (uint64_t)(d - r->win);
  if (e.ptr_inside && !g_rec_no_payload) e.payload.assign(d, d + len);
  r->evs.push_back(std::move(e));
}
void cb_uint8(void* c, uint8_t v) { simple(c, SL_UINT8, v); }
void cb_uint16(void* c, uint16_t v) { simple(c, SL_UINT16, v); }
void cb_uint32(void* c, uint32_t v) { simple(c, SL_UINT32, v); }
void cb_uint64(void* c, uint64_t v) { simple(c, SL_UINT64, v); }
void cb_negint8(void* c, uint8_t v) { simple(c, SL_NEGINT8, v); }
void cb_negint16(void* c, uint16_t v) { simple(c, SL_NEGINT16, v); }
void cb_negint32(void* c, uint32_t v) { simple(c, SL_NEGINT32, v); }
void cb_negint64(void* c, uint64_t v) { simple(c, SL_NEGINT64, v); }
void cb_bstr(void* c, cbor_data d, uint64_t n) { str(c, SL_BSTR, d, n); }
void cb_bstr_start(void* c) { simple(c, SL_BSTR_START); }
void cb_tstr(void* c, cbor_data d, uint64_t n) { str(c, SL_TSTR, d, n); }
void cb_tstr_start(void* c) { simple(c, SL_TSTR_START); }
void cb_array(void* c, uint64_t n) { simple(c, SL_ARRAY, n); }
void cb_array_indef(void* c) { simple(c, SL_ARRAY_INDEF); }
void cb_map(void* c, uint64_t n) { simple(c, SL_MAP, n); }
void cb_map_indef(void* c) { simple(c, SL_MAP_INDEF); }
void cb_tag(void* c, uint64_t v) { simple(c, SL_TAG, v); }
void cb_float2(void* c, float f) { simple(c, SL_FLOAT2, f2u(f)); }
void cb_float4(void* c, float f) { simple(c, SL_FLOAT4, f2u(f)); }
void cb_float8(void* c, double d) { simple(c, SL_FLOAT8, d2u(d)); }
void cb_undef(void* c) { simple(c, SL_UNDEF); }
void cb_null(void* c) { simple(c, SL_NULL); }
void cb_bool(void* c, bool b) { simple(c, SL_BOOL, b ? 1 : 0); }
void cb_break(void* c) { simple(c, SL_BREAK); }
}  // namespace

const struct cbor_callbacks* recorder_callbacks() {
  static struct cbor_callbacks cb;
  static bool init = false;
  if (!init) {
    cb.uint8 = cb_uint8; cb.uint16 = cb_uint16; cb.uint32 = cb_uint32; cb.uint64 = cb_uint64;
    cb.negint8 = cb_negint8; cb.negint16 = cb_negint16; cb.negint32 = cb_negint32; cb.negint64 = cb_negint64;
    cb.byte_string = cb_bstr; cb.byte_string_start = cb_bstr_start; cb.string = cb_tstr; cb.string_start = cb_tstr_start;
    cb.array_start = cb_array; cb.indef_array_start = cb_array_indef; cb.map_start = cb_map; cb.indef_map_start = cb_map_indef;
    cb.tag = cb_tag; cb.float2 = cb_float2; cb.float4 = cb_float4; cb.float8 = cb_float8;
    cb.undefined = cb_undef; cb.null = cb_null; cb.boolean = cb_bool; cb.indef_break = cb_break;
    init = true;
  }
  return &cb;
}

RecEv expected_event(const Tok& t, const uint8_t* p) {
  RecEv e; e.arg = t.arg;
  auto wslot = [&](int s8, int s16, int s32, int s64) { return t.argw <= 1 ? s8 : t.argw == 2 ? s16 : t.argw == 4 ? s32 : s64; };
  switch (t.kind) {
    case TK_UINT: e.slot = wslot(SL_UINT8, SL_UINT16, SL_UINT32, SL_UINT64); break;
    case TK_NEGINT: e.slot = wslot(SL_NEGINT8, SL_NEGINT16, SL_NEGINT32, SL_NEGINT64); break;
    case TK_BSTR: case TK_TSTR:
      e.slot = t.kind == TK_BSTR ? SL_BSTR : SL_TSTR; e.ptr_off = t.head_len; if (!g_rec_no_payload) e.payload.assign(p + t.head_len, p + t.head_len + t.arg); break;
    case TK_BSTR_START: e.slot = SL_BSTR_START; e.arg = 0; break;
    case TK_TSTR_START: e.slot = SL_TSTR_START; e.arg = 0; break;
    case TK_ARRAY: e.slot = SL_ARRAY; break;
    case TK_ARRAY_START: e.slot = SL_ARRAY_INDEF; e.arg = 0; break;
    case TK_MAP: e.slot = SL_MAP; break;
    case TK_MAP_START: e.slot = SL_MAP_INDEF; e.arg = 0; break;
    case TK_TAG: e.slot = SL_TAG; break;
    case TK_BOOL: e.slot = SL_BOOL; break;
    case TK_NULL: e.slot = SL_NULL; e.arg = 0; break;
    case TK_UNDEF: e.slot = SL_UNDEF; e.arg = 0; break;
    case TK_FLOAT2: e.slot = SL_FLOAT2; e.arg = half_bits_to_float_bits((uint16_t)t.arg); break;
    case TK_FLOAT4: e.slot = SL_FLOAT4; break;
    case TK_FLOAT8: e.slot = SL_FLOAT8; break;
    case TK_BREAK: e.slot = SL_BREAK; e.arg = 0; break;
  }
  return e;
}

static bool nan32(uint64_t u) { return ((u >> 23) & 0xff) == 0xff && (u & 0x7fffff); }
static bool nan64(uint64_t u) { return ((u >> 52) & 0x7ff) == 0x7ff && (u & 0xfffffffffffffull); }

bool event_matches(const RecEv& g, const RecEv& e, std::string& why) {
  if (g.slot != e.slot) { why = fmt("callback '%s' invoked, expected '%s'", slot_name(g.slot), slot_name(e.slot)); return false; }
  bool argok = g.arg == e.arg;
  if (!argok && (g.slot == SL_FLOAT2 || g.slot == SL_FLOAT4)) argok = nan32(g.arg) && nan32(e.arg);
  if (!argok && g.slot == SL_FLOAT8) argok = nan64(g.arg) && nan64(e.arg);
  if (!argok) { why = fmt("callback '%s' got argument %llu (0x%llx), expected %llu (0x%llx)", slot_name(g.slot), (unsigned long long)g.arg, (unsigned long long)g.arg, (unsigned long long)e.arg, (unsigned long long)e.arg); return false; }
  if (g.slot == SL_BSTR || g.slot == SL_TSTR) {
    if (!g.ptr_inside) { why = fmt("callback '%s' got a payload pointer outside the buffer", slot_name(g.slot)); return false; }
    if (g.ptr_off != e.ptr_off) { why = fmt("callback '%s' payload pointer at offset %llu, expected %llu", slot_name(g.slot), (unsigned long long)g.ptr_off, (unsigned long long)e.ptr_off); return false; }
    if (g.payload != e.payload) { why = fmt("callback '%s' payload bytes differ", slot_name(g.slot)); return false; }
  }
  return true;
}
