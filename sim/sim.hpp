// Framework glue: run context, workload registry, generators shared by workloads.
#pragma once
#include <cstdio>
#include "util.hpp"
#include "ref.hpp"
#include "simalloc.hpp"

struct RunCtx {
  std::string prop;          // property being checked
  std::string tier;          // quick | thorough
  bool nontrivial = false;   // set by the workload when the run satisfied the property's non-triviality rule
  uint64_t foreign = 0;      // oracle failures that belong to other properties (not reported by this check)
  bool foreign_seen = false; // ... in the current run (stateful workloads stop the run)
  uint64_t distinct_key = 0; // when non-zero: what makes this run distinct (e.g. the schedule hash) instead of the plan digest
  uint64_t sim_time = 0;     // simulated time covered by this run (W3)
};
extern RunCtx g_run;

typedef J (*GenFn)(const std::string& prop, uint64_t run_seed, const std::string& tier);
typedef void (*ExecFn)(const J& plan);
struct Workload { const char* name; GenFn gen; ExecFn exec; };
const Workload* find_workload(const std::string& name);
const char* workload_for(const std::string& prop, uint64_t run_seed);

// ---- shared generators
uint64_t gen_u64(Rng& r);                 // boundary-biased 64-bit value
uint64_t gen_len(Rng& r, uint64_t cap);   // boundary-biased small length, occasionally large (<= cap)
void gen_payload(uint64_t seed, size_t n, int flavour, std::vector<uint8_t>& out);  // flavour 0 bytes, 1 ascii, 2 valid utf8, 3 possibly invalid utf8
struct GenProfile { unsigned max_depth = 4; unsigned max_kids = 4; uint64_t big_len_cap = 300; bool allow_big = false; };
MV gen_mv(Rng& r, const GenProfile& p, unsigned depth = 0);

// nesting chain: `depth` wrappers cycling through `kinds` around an innermost leaf; reports the decoder levels it needs
void nest_chain(const std::vector<uint64_t>& kinds, size_t depth, unsigned leaf_kind, std::vector<uint8_t>& out, unsigned* total_levels);
unsigned nest_leaf_levels(unsigned leaf_kind);
MV deep_mv(Rng& r, unsigned depth);     // a value nested `depth` containers deep (tags, arrays, maps, indefinite flavours)
void gen_encode(Rng& r, const MV& v, std::vector<uint8_t>& out);   // reference encoding; a quarter of the items with non-preferred (wider than needed) heads on lengths, counts and tag numbers
uint64_t gen_fpmode(Rng& kn);              // bit 0: FTZ|DAZ; bits 1-2: rounding direction (0 nearest, 1 down, 2 up, 3 toward zero)
MV dense_mv(Rng& r);                     // a wide container whose members all occupy one byte

// workloads (one file each)
J gen_stream(const std::string&, uint64_t, const std::string&); void exec_stream(const J&);
J gen_seq(const std::string&, uint64_t, const std::string&);    void exec_seq(const J&);
J gen_hist(const std::string&, uint64_t, const std::string&);   void exec_hist(const J&);
J gen_fault(const std::string&, uint64_t, const std::string&);  void exec_fault(const J&);
J gen_tasks(const std::string&, uint64_t, const std::string&);  void exec_tasks(const J&);
J gen_ro(const std::string&, uint64_t, const std::string&);     void exec_ro(const J&);
J gen_nest(const std::string&, uint64_t, const std::string&);   void exec_nest(const J&);

// process locale for C17 runs: a synthetic LC_NUMERIC with ',' as radix character (the application's locale is global state the
// library shares with it; a library that 'temporarily' switches it is caught when it does)
bool comma_locale(bool on);

// a lazily committed, zero-filled region of 8 GiB + 64 KiB for calls with buffer lengths beyond 2^32 (only the pages that are
// touched become resident). Returns nullptr if the mapping is not available.
uint8_t* huge_region();
static const uint64_t HUGE_REGION_BYTES = ((uint64_t)8 << 30) + 65536;
extern FILE* g_shared_describe;   // W4: when set, tasks describe their private items into this one stream (as programs do with stdout)
extern bool g_rec_no_payload;   // recorder: do not copy string payloads (they may be gigabytes of untouched zero pages)

// common knob parsing
SaKnobs knobs_alloc(const J& plan);
