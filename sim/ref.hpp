// Reference models written from RFC 8949 and the header documentation only
// (DESIGN.md §4). Shares no code with libcbor.
#pragma once
#include <functional>
#include "util.hpp"
#include <memory>

// ------------------------------------------------------------------ tokens
enum TokKind {
  TK_UINT, TK_NEGINT, TK_BSTR, TK_BSTR_START, TK_TSTR, TK_TSTR_START, TK_ARRAY, TK_ARRAY_START,
  TK_MAP, TK_MAP_START, TK_TAG, TK_BOOL, TK_NULL, TK_UNDEF, TK_FLOAT2, TK_FLOAT4, TK_FLOAT8, TK_BREAK
};
enum TokStatus { TS_OK, TS_INCOMPLETE, TS_RESERVED };

struct Tok {
  TokStatus st = TS_OK;
  TokKind kind = TK_UINT;
  int argw = 0;            // bytes of argument following the initial byte: 0 (immediate) 1 2 4 8
  uint64_t arg = 0;        // decoded argument (for floats: the bit pattern at that width)
  unsigned head_len = 1;   // 1 + argw (known from the initial byte alone)
  u128 total_len = 1;      // head_len (+ payload for definite strings); valid when the head is complete
  bool head_complete = false;
};

// tokenise the head at p[0..n). n may be 0.
Tok ref_tok(const uint8_t* p, size_t n);

// exact half -> single conversion on bit patterns
uint32_t half_bits_to_float_bits(uint16_t h);
// is this single pattern exactly representable as a half? (NaN counts as representable)
bool float_bits_is_half(uint32_t f);

// ------------------------------------------------------------------ value model
enum MKind { MK_UINT, MK_NEGINT, MK_BSTR, MK_TSTR, MK_ARRAY, MK_MAP, MK_TAG, MK_FLOAT, MK_CTRL };

struct MV {
  MKind kind = MK_UINT;
  int width = 1;                 // ints: 1,2,4,8 (bytes); floats: 2,4,8
  uint64_t val = 0;              // int value / float bit pattern at `width` / ctrl value / tag number
  bool definite = true;          // strings, arrays, maps
  std::vector<uint8_t> bytes;    // definite strings
  std::vector<MV> kids;          // array members; map k,v,k,v...; chunks; tag child (1)
};

void ref_encode(const MV& v, std::vector<uint8_t>& out);
static inline std::vector<uint8_t> ref_encode(const MV& v) { std::vector<uint8_t> o; ref_encode(v, o); return o; }
void ref_head(unsigned major, uint64_t arg, std::vector<uint8_t>& out);   // shortest head
// What a sender may legally put on the wire for the same data item: lengths, counts and tag numbers in ANY head width that holds them
// (RFC 8949 3.1: preferred serialization is a recommendation, decoders accept all), NaN payloads as stored. `widen` is consulted per head:
// it returns how many width steps (0..4) above the shortest to go. The decoded tree is the same; cbor_serialize emits the shortest again.
void ref_encode_wire(const MV& v, const std::function<unsigned()>& widen, std::vector<uint8_t>& out);
unsigned ref_depth(const MV& v);     // nesting levels the decoder needs (empty definite containers do not count)
std::string mv_str(const MV& v, int limit = 200);   // short printable form
size_t ref_utf8_count(const uint8_t* p, size_t n);  // strict RFC 3629 count, 0 when invalid
bool mv_equal(const MV& a, const MV& b);            // NaN == NaN

// ------------------------------------------------------------------ structural decoder (what cbor_load must do)
enum RStatus { R_ITEM, R_NODATA, R_NEDATA, R_MALFORMED, R_SYNTAX, R_MEMERROR };
static inline const char* rstatus_name(int s) { static const char* n[] = {"ITEM", "NODATA", "NOTENOUGHDATA", "MALFORMATED", "SYNTAXERROR", "MEMERROR"}; return (s >= 0 && s < 6) ? n[s] : "?"; }

struct RefLoad {
  RStatus st = R_NODATA;
  uint64_t pos = 0;                  // error position (when not R_ITEM)
  uint64_t read = 0;                 // bytes of the first item (R_ITEM)
  MV tree;                           // R_ITEM
  bool alt = false;                  // a second admissible outcome exists (C05 latitude: illegal item opened inside a chunked string)
  RStatus alt_st = R_SYNTAX; uint64_t alt_pos = 0;
  std::vector<uint64_t> tok_end;     // end offset of every token consumed (for allocation attribution)
  unsigned max_depth = 0;            // deepest stack reached
  uint64_t tokens = 0;
  bool admits(int st_, uint64_t pos_) const { return ((int)st == st_ && pos == pos_) || (alt && (int)alt_st == st_ && alt_pos == pos_); }
};

// L: nesting limit of the build under test. alloc_cap: a single allocation request above this is refused by the simulated allocator.
RefLoad ref_load(const uint8_t* p, size_t n, unsigned L, uint64_t alloc_cap);
