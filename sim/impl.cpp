#include "impl.hpp"
#include <set>

unsigned impl_max_stack() { return (unsigned)CBOR_MAX_STACK_SIZE; }
unsigned impl_growth() { return (unsigned)CBOR_BUFFER_GROWTH; }
size_t impl_serialize_typed(const cbor_item_t* it, unsigned char* buf, size_t cap) {
  switch (cbor_typeof(it)) {
    case CBOR_TYPE_UINT: return cbor_serialize_uint(it, buf, cap);
    case CBOR_TYPE_NEGINT: return cbor_serialize_negint(it, buf, cap);
    case CBOR_TYPE_BYTESTRING: return cbor_serialize_bytestring(it, buf, cap);
    case CBOR_TYPE_STRING: return cbor_serialize_string(it, buf, cap);
    case CBOR_TYPE_ARRAY: return cbor_serialize_array(it, buf, cap);
    case CBOR_TYPE_MAP: return cbor_serialize_map(it, buf, cap);
    case CBOR_TYPE_TAG: return cbor_serialize_tag(it, buf, cap);
    default: return cbor_serialize_float_ctrl(it, buf, cap);
  }
}

static bool nan32(uint32_t u) { return ((u >> 23) & 0xff) == 0xff && (u & 0x7fffff); }
static bool nan64(uint64_t u) { return ((u >> 52) & 0x7ff) == 0x7ff && (u & 0xfffffffffffffull); }

// single -> half pattern when exactly representable
static bool float_bits_to_half_bits(uint32_t f, uint16_t* h) {
  uint32_t sign = (f >> 16) & 0x8000u, e = (f >> 23) & 0xff, m = f & 0x7fffff;
  if (e == 0xff) { *h = (uint16_t)(m ? 0x7e00 : (sign | 0x7c00)); return true; }
  if (e == 0) { if (m) return false; *h = (uint16_t)sign; return true; }
  int le = (int)e - 127;
  if (le > 15) return false;
  if (le >= -14) { if (m & 0x1fff) return false; *h = (uint16_t)(sign | (uint32_t)((le + 15) << 10) | (m >> 13)); return true; }
  if (le < -24) return false;
  int drop = 13 + (-14 - le);
  uint32_t full = m | 0x800000u;
  if (full & ((1u << drop) - 1)) return false;
  *h = (uint16_t)(sign | (full >> drop)); return true;
}

static bool item_block_ok(const cbor_item_t* it) { const BlockInfo* b = sa_find(it); return b && b->size >= sizeof(cbor_item_t); }

bool impl_to_mv(const cbor_item_t* it, MV& out, std::string& why, int depth) {
  if (it == nullptr) { why = "NULL item inside tree"; return false; }
  if (!item_block_ok(it)) { why = "tree contains a pointer that is not a live item block of the installed allocator"; return false; }
  if (depth > 100000) { why = "tree too deep"; return false; }
  out = MV();
  switch (cbor_typeof(it)) {
    case CBOR_TYPE_UINT: case CBOR_TYPE_NEGINT:
      out.kind = cbor_isa_uint(it) ? MK_UINT : MK_NEGINT;
      out.width = int_width_bytes(cbor_int_get_width(it));
      out.val = cbor_get_int(it);
      return true;
    case CBOR_TYPE_BYTESTRING:
      out.kind = MK_BSTR; out.definite = cbor_bytestring_is_definite(it);
      if (out.definite) { size_t n = cbor_bytestring_length(it); const unsigned char* h = cbor_bytestring_handle(it); if (n && !h) { why = "byte string without data"; return false; } out.bytes.assign(h, h + n); }
      else {
        size_t n = cbor_bytestring_chunk_count(it); cbor_item_t** ch = cbor_bytestring_chunks_handle(it);
        out.kids.resize(n);
        for (size_t i = 0; i < n; i++) if (!impl_to_mv(ch[i], out.kids[i], why, depth + 1)) return false;
      }
      return true;
    case CBOR_TYPE_STRING:
      out.kind = MK_TSTR; out.definite = cbor_string_is_definite(it);
      if (out.definite) { size_t n = cbor_string_length(it); const unsigned char* h = cbor_string_handle(it); if (n && !h) { why = "text string without data"; return false; } out.bytes.assign(h, h + n); }
      else {
        size_t n = cbor_string_chunk_count(it); cbor_item_t** ch = cbor_string_chunks_handle(it);
        out.kids.resize(n);
        for (size_t i = 0; i < n; i++) if (!impl_to_mv(ch[i], out.kids[i], why, depth + 1)) return false;
      }
      return true;
    case CBOR_TYPE_ARRAY: {
      out.kind = MK_ARRAY; out.definite = cbor_array_is_definite(it);
      size_t n = cbor_array_size(it); cbor_item_t** h = cbor_array_handle(it);
      out.kids.resize(n);
      for (size_t i = 0; i < n; i++) if (!impl_to_mv(h[i], out.kids[i], why, depth + 1)) return false;
      return true;
    }
    case CBOR_TYPE_MAP: {
      out.kind = MK_MAP; out.definite = cbor_map_is_definite(it);
      size_t n = cbor_map_size(it); struct cbor_pair* h = cbor_map_handle(it);
      out.kids.resize(n * 2);
      for (size_t i = 0; i < n; i++) {
        if (!impl_to_mv(h[i].key, out.kids[2 * i], why, depth + 1)) return false;
        if (!impl_to_mv(h[i].value, out.kids[2 * i + 1], why, depth + 1)) return false;
      }
      return true;
    }
    case CBOR_TYPE_TAG: {
      out.kind = MK_TAG; out.val = cbor_tag_value(it);
      const cbor_item_t* c = it->metadata.tag_metadata.tagged_item;   // documented struct field; cbor_tag_item() would take a reference
      if (c) { out.kids.resize(1); if (!impl_to_mv(c, out.kids[0], why, depth + 1)) return false; }
      return true;
    }
    case CBOR_TYPE_FLOAT_CTRL:
      if (cbor_float_ctrl_is_ctrl(it)) { out.kind = MK_CTRL; out.val = cbor_ctrl_value(it); return true; }
      out.kind = MK_FLOAT;
      switch (cbor_float_get_width(it)) {
        case CBOR_FLOAT_16: { out.width = 2; uint16_t h; if (!float_bits_to_half_bits(f2u(cbor_float_get_float2(it)), &h)) { why = "half item holds a value that is not half-representable"; return false; } out.val = h; return true; }
        case CBOR_FLOAT_32: out.width = 4; out.val = f2u(cbor_float_get_float4(it)); return true;
        case CBOR_FLOAT_64: out.width = 8; out.val = d2u(cbor_float_get_float8(it)); return true;
        default: why = "float of width 0"; return false;
      }
  }
  why = "unknown item type"; return false;
}

static inline std::string P(const std::string& path, const std::string& suffix) { return path.size() > 160 ? path : path + suffix; }
bool impl_equals(const cbor_item_t* it, const MV& v, std::string& why, const std::string& path) {
  if (!it) { why = path + ": NULL item"; return false; }
  if (!item_block_ok(it)) { why = path + ": pointer is not a live item block of the installed allocator (dangling or wild)"; return false; }
  auto bad = [&](const std::string& m) { why = path + ": " + m; return false; };
  switch (v.kind) {
    case MK_UINT: case MK_NEGINT:
      if (cbor_typeof(it) != (v.kind == MK_UINT ? CBOR_TYPE_UINT : CBOR_TYPE_NEGINT)) return bad("expected integer of the other sign / other type");
      if (int_width_bytes(cbor_int_get_width(it)) != v.width) return bad(fmt("int width %d, expected %d", int_width_bytes(cbor_int_get_width(it)), v.width));
      if (cbor_get_int(it) != v.val) return bad(fmt("int value %llu, expected %llu", (unsigned long long)cbor_get_int(it), (unsigned long long)v.val));
      return true;
    case MK_FLOAT: {
      if (!cbor_isa_float_ctrl(it) || cbor_float_ctrl_is_ctrl(it)) return bad("expected a float");
      int w = cbor_float_get_width(it) == CBOR_FLOAT_16 ? 2 : cbor_float_get_width(it) == CBOR_FLOAT_32 ? 4 : 8;
      if (w != v.width) return bad(fmt("float width %d, expected %d", w, v.width));
      if (w == 8) { uint64_t g = d2u(cbor_float_get_float8(it)); if (g != v.val && !(nan64(g) && nan64(v.val))) return bad(fmt("double bits %llx, expected %llx", (unsigned long long)g, (unsigned long long)v.val)); return true; }
      uint32_t g = f2u(w == 2 ? cbor_float_get_float2(it) : cbor_float_get_float4(it));
      uint32_t e = w == 2 ? half_bits_to_float_bits((uint16_t)v.val) : (uint32_t)v.val;
      if (g != e && !(nan32(g) && nan32(e))) return bad(fmt("float bits %x, expected %x", g, e));
      return true;
    }
    case MK_CTRL:
      if (!cbor_isa_float_ctrl(it) || !cbor_float_ctrl_is_ctrl(it)) return bad("expected a simple value");
      if (cbor_ctrl_value(it) != v.val) return bad(fmt("simple value %u, expected %llu", cbor_ctrl_value(it), (unsigned long long)v.val));
      return true;
    case MK_BSTR: {
      if (!cbor_isa_bytestring(it)) return bad("expected byte string");
      if (cbor_bytestring_is_definite(it) != v.definite) return bad("definite/indefinite flavour differs");
      if (v.definite) {
        if (cbor_bytestring_length(it) != v.bytes.size()) return bad(fmt("length %zu, expected %zu", cbor_bytestring_length(it), v.bytes.size()));
        if (v.bytes.size() && memcmp(cbor_bytestring_handle(it), v.bytes.data(), v.bytes.size()) != 0) return bad("payload bytes differ");
        return true;
      }
      if (cbor_bytestring_chunk_count(it) != v.kids.size()) return bad(fmt("chunk count %zu, expected %zu", cbor_bytestring_chunk_count(it), v.kids.size()));
      for (size_t i = 0; i < v.kids.size(); i++) if (!impl_equals(cbor_bytestring_chunks_handle(it)[i], v.kids[i], why, P(path, fmt(".chunk[%zu]", i)))) return false;
      return true;
    }
    case MK_TSTR: {
      if (!cbor_isa_string(it)) return bad("expected text string");
      if (cbor_string_is_definite(it) != v.definite) return bad("definite/indefinite flavour differs");
      if (v.definite) {
        if (cbor_string_length(it) != v.bytes.size()) return bad(fmt("length %zu, expected %zu", cbor_string_length(it), v.bytes.size()));
        if (v.bytes.size() && memcmp(cbor_string_handle(it), v.bytes.data(), v.bytes.size()) != 0) return bad("payload bytes differ");
        return true;
      }
      if (cbor_string_chunk_count(it) != v.kids.size()) return bad(fmt("chunk count %zu, expected %zu", cbor_string_chunk_count(it), v.kids.size()));
      for (size_t i = 0; i < v.kids.size(); i++) if (!impl_equals(cbor_string_chunks_handle(it)[i], v.kids[i], why, P(path, fmt(".chunk[%zu]", i)))) return false;
      return true;
    }
    case MK_ARRAY: {
      if (!cbor_isa_array(it)) return bad("expected array");
      if (cbor_array_is_definite(it) != v.definite) return bad("definite/indefinite flavour differs");
      if (cbor_array_size(it) != v.kids.size()) return bad(fmt("array size %zu, expected %zu", cbor_array_size(it), v.kids.size()));
      if (cbor_array_size(it) > cbor_array_allocated(it)) return bad("size exceeds allocated");
      if (!v.kids.empty() && !cbor_array_handle(it)) return bad("array has elements but NULL storage");
      for (size_t i = 0; i < v.kids.size(); i++) if (!impl_equals(cbor_array_handle(it)[i], v.kids[i], why, P(path, fmt("[%zu]", i)))) return false;
      return true;
    }
    case MK_MAP: {
      if (!cbor_isa_map(it)) return bad("expected map");
      if (cbor_map_is_definite(it) != v.definite) return bad("definite/indefinite flavour differs");
      if (cbor_map_size(it) * 2 != v.kids.size()) return bad(fmt("map size %zu, expected %zu", cbor_map_size(it), v.kids.size() / 2));
      if (cbor_map_size(it) > cbor_map_allocated(it)) return bad("size exceeds allocated");
      if (!v.kids.empty() && !cbor_map_handle(it)) return bad("map has pairs but NULL storage");
      for (size_t i = 0; i < v.kids.size() / 2; i++) {
        if (!impl_equals(cbor_map_handle(it)[i].key, v.kids[2 * i], why, P(path, fmt("{%zu}.key", i)))) return false;
        if (!impl_equals(cbor_map_handle(it)[i].value, v.kids[2 * i + 1], why, P(path, fmt("{%zu}.value", i)))) return false;
      }
      return true;
    }
    case MK_TAG: {
      if (!cbor_isa_tag(it)) return bad("expected tag");
      if (cbor_tag_value(it) != v.val) return bad(fmt("tag %llu, expected %llu", (unsigned long long)cbor_tag_value(it), (unsigned long long)v.val));
      const cbor_item_t* c = it->metadata.tag_metadata.tagged_item;
      if (v.kids.empty()) { if (c) return bad("tag has an item, expected none"); return true; }
      return impl_equals(c, v.kids[0], why, P(path, ".tagged"));
    }
  }
  return bad("unknown model kind");
}

void raw_children(const cbor_item_t* it, std::vector<cbor_item_t*>& out) {
  switch (it->type) {
    case CBOR_TYPE_BYTESTRING: case CBOR_TYPE_STRING: {
      bool def = it->type == CBOR_TYPE_BYTESTRING ? it->metadata.bytestring_metadata.type == _CBOR_METADATA_DEFINITE : it->metadata.string_metadata.type == _CBOR_METADATA_DEFINITE;
      if (!def && it->data) { const struct cbor_indefinite_string_data* d = (const struct cbor_indefinite_string_data*)it->data; if (d->chunks) for (size_t i = 0; i < d->chunk_count; i++) out.push_back(d->chunks[i]); }
      break;
    }
    case CBOR_TYPE_ARRAY: if (it->data) for (size_t i = 0; i < it->metadata.array_metadata.end_ptr; i++) out.push_back(((cbor_item_t**)it->data)[i]); break;
    case CBOR_TYPE_MAP: if (it->data) for (size_t i = 0; i < it->metadata.map_metadata.end_ptr; i++) { out.push_back(((struct cbor_pair*)it->data)[i].key); out.push_back(((struct cbor_pair*)it->data)[i].value); } break;
    case CBOR_TYPE_TAG: if (it->metadata.tag_metadata.tagged_item) out.push_back(it->metadata.tag_metadata.tagged_item); break;
    default: break;
  }
}

void impl_owned_blocks(const cbor_item_t* it, std::vector<const void*>& out) {
  out.push_back(it);
  switch (it->type) {
    case CBOR_TYPE_BYTESTRING: case CBOR_TYPE_STRING: {
      bool def = it->type == CBOR_TYPE_BYTESTRING ? it->metadata.bytestring_metadata.type == _CBOR_METADATA_DEFINITE : it->metadata.string_metadata.type == _CBOR_METADATA_DEFINITE;
      if (def) { if (it->data) out.push_back(it->data); }
      else if (it->data) { out.push_back(it->data); const void* ch = ((const struct cbor_indefinite_string_data*)it->data)->chunks; if (ch) out.push_back(ch); }
      break;
    }
    case CBOR_TYPE_ARRAY: case CBOR_TYPE_MAP: if (it->data) out.push_back(it->data); break;
    default: break;
  }
}

static void tree_blocks_rec(const cbor_item_t* it, std::vector<const void*>& out, std::vector<const cbor_item_t*>& nodes, std::set<const cbor_item_t*>& seen) {
  if (!it || seen.count(it)) return;
  seen.insert(it); nodes.push_back(it);
  impl_owned_blocks(it, out);
  std::vector<cbor_item_t*> ch; raw_children(it, ch);
  for (auto* c : ch) tree_blocks_rec(c, out, nodes, seen);
}
void impl_tree_blocks(const cbor_item_t* it, std::vector<const void*>& out, std::vector<const cbor_item_t*>& nodes) {
  std::set<const cbor_item_t*> seen; tree_blocks_rec(it, out, nodes, seen);
}

uint64_t impl_observables_digest(const cbor_item_t* it) {
  uint64_t h = hash_comb(0x0b5e, (uint64_t)cbor_typeof(it));
  switch (cbor_typeof(it)) {
    case CBOR_TYPE_UINT: case CBOR_TYPE_NEGINT: h = hash_comb(h, (uint64_t)cbor_int_get_width(it)); h = hash_comb(h, cbor_get_int(it)); break;
    case CBOR_TYPE_BYTESTRING:
      h = hash_comb(h, cbor_bytestring_is_definite(it));
      if (cbor_bytestring_is_definite(it)) { h = hash_comb(h, cbor_bytestring_length(it)); h = hash_comb(h, hash_bytes(cbor_bytestring_handle(it), cbor_bytestring_length(it))); }
      else { size_t n = cbor_bytestring_chunk_count(it); h = hash_comb(h, n); cbor_item_t** c = cbor_bytestring_chunks_handle(it); for (size_t i = 0; i < n; i++) h = hash_comb(h, impl_observables_digest(c[i])); }
      break;
    case CBOR_TYPE_STRING:
      h = hash_comb(h, cbor_string_is_definite(it));
      if (cbor_string_is_definite(it)) { h = hash_comb(h, cbor_string_length(it)); h = hash_comb(h, cbor_string_codepoint_count(it)); h = hash_comb(h, hash_bytes(cbor_string_handle(it), cbor_string_length(it))); }
      else { size_t n = cbor_string_chunk_count(it); h = hash_comb(h, n); cbor_item_t** c = cbor_string_chunks_handle(it); for (size_t i = 0; i < n; i++) h = hash_comb(h, impl_observables_digest(c[i])); }
      break;
    case CBOR_TYPE_ARRAY: { h = hash_comb(h, cbor_array_is_definite(it)); size_t n = cbor_array_size(it); h = hash_comb(h, n); cbor_item_t** c = cbor_array_handle(it); for (size_t i = 0; i < n; i++) h = hash_comb(h, impl_observables_digest(c[i])); break; }
    case CBOR_TYPE_MAP: { h = hash_comb(h, cbor_map_is_definite(it)); size_t n = cbor_map_size(it); h = hash_comb(h, n); struct cbor_pair* c = cbor_map_handle(it); for (size_t i = 0; i < n; i++) { h = hash_comb(h, impl_observables_digest(c[i].key)); h = hash_comb(h, impl_observables_digest(c[i].value)); } break; }
    case CBOR_TYPE_TAG: { h = hash_comb(h, cbor_tag_value(it)); cbor_item_t* t = it->metadata.tag_metadata.tagged_item; h = hash_comb(h, t ? impl_observables_digest(t) : 0); break; }
    case CBOR_TYPE_FLOAT_CTRL:
      h = hash_comb(h, (uint64_t)cbor_float_get_width(it));
      if (cbor_float_ctrl_is_ctrl(it)) h = hash_comb(h, cbor_ctrl_value(it));
      else { double d = cbor_float_get_float(it); h = hash_comb(h, d != d ? 1 : d2u(d)); }
      break;
  }
  return h;
}
