#include "loadcheck.hpp"
#include "sim.hpp"

uint64_t count_load_requests(const uint8_t* p, size_t n) {
  struct cbor_load_result res;
  sa_begin(FaultSpec());
  cbor_item_t* it = cbor_load(p, n, &res);
  if (it) cbor_decref(&it);
  OpWindow w = sa_end();
  return w.requests;
}

static const char* code_name(int c) {
  static const char* n[] = {"NONE", "NOTENOUGHDATA", "NODATA", "MALFORMATED", "MEMERROR", "SYNTAXERROR"};
  return (c >= 0 && c < 6) ? n[c] : "<unwritten>";
}
static int code_to_rstatus(int c) {
  switch (c) { case CBOR_ERR_NOTENOUGHDATA: return R_NEDATA; case CBOR_ERR_NODATA: return R_NODATA; case CBOR_ERR_MALFORMATED: return R_MALFORMED; case CBOR_ERR_MEMERROR: return R_MEMERROR; case CBOR_ERR_SYNTAXERROR: return R_SYNTAX; default: return -1; }
}

LoadOutcome checked_load(const uint8_t* win, size_t n, const LoadOpts& o, MV* tree_out) {
  LoadOutcome out;
  if (!g_task_mode) sa_compact();      // receivers retry thousands of loads in one run; dead block records need not pile up
  const uint8_t* w = win; uint8_t* owned = nullptr;
  static const uint8_t dummy = 0;
  if (o.exact_window) { owned = (uint8_t*)malloc(n); if (n) memcpy(owned, win, n); w = owned; }
  if (w == nullptr) w = &dummy;
  unsigned L = o.L ? o.L : impl_max_stack();
  out.ref = ref_load(w, n, L, sa_max_request());
  const RefLoad& ref = out.ref;
  uint64_t live_before = sa_live_sig(); uint64_t live_before_n = sa_live_count();
  const uint64_t SENT = 0xA5A5A5A5A5A5A5A5ull;
  struct cbor_load_result res; memset(&res, 0xA5, sizeof res);
  auto lib = [&](const std::function<void()>& f) { if (o.runner) o.runner(f); else f(); };
  sa_begin(o.fault);
  cbor_item_t* item = nullptr;
  lib([&]() { item = cbor_load(w, n, &res); });
  OpWindow ow = sa_end();
  out.requests = ow.requests; out.refused = ow.refused;
  out.item = item != nullptr; out.read = res.read; out.code = (int)res.error.code; out.position = res.error.position;
  g_log.ev("load", n, item ? 1 : 0, item ? res.read : ((uint64_t)res.error.code << 48) ^ res.error.position);
  stat_add("load_calls");
  std::string where = fmt("%s: cbor_load on %zu byte(s) [%s%s]", o.where, n, to_hex(w, n < 24 ? n : 24).c_str(), n > 24 ? "..." : "");
  // a refusal is a refusal, whether the plan's fault injected it or the request exceeded the allocator's single-request cap
  // (the reference models the cap for preallocations and strings; a growth step of a long indefinite container can exceed it too)
  bool injected = ow.refused > 0;
  if (injected) stat_add("load_calls_with_refusal");

  if (item) {
    if (injected) fail("C05,C06", "load-succeeds-despite-refused-allocation", where + fmt(": request %llu was refused but an item was returned", (unsigned long long)ow.first_refused));
    else if (ref.st != R_ITEM) {
      fail("C02", "invalid-input-accepted", where + fmt(": item returned, reference says %s at %llu", rstatus_name(ref.st), (unsigned long long)ref.pos));
    } else {
      std::vector<uint8_t> keep_bytes; if (ref.read <= ((uint64_t)1 << 20) && ref.read <= n) keep_bytes.assign(w, w + (size_t)ref.read);
      if (res.read != ref.read) fail("C14", "bytes-read-differs", where + fmt(": read=%zu, the first item occupies %llu byte(s)", res.read, (unsigned long long)ref.read));
      if (owned) { memset(owned, 0x5A, n); free(owned); owned = nullptr; w = nullptr; }   // the input may be overwritten/freed at once
      std::string why;
      if (!failed() && !impl_equals(item, ref.tree, why)) fail("C14", "tree-differs", where + ": " + why);
      // "the same tree as decoding x alone": decode the item's own bytes once more, alone, from a block that starts at a different
      // alignment, and compare everything the getters show (a decoder that scans the input word-wise sees the same item differently)
      { static thread_local uint64_t nth = 0;
        if (!failed() && !g_task_mode && o.fault.kind == F_NONE && (nth++ % 4) == 0 && ref.read <= ((uint64_t)1 << 20)) {
          uint64_t d1 = impl_observables_digest(item);
          unsigned shift = 1 + (unsigned)(nth % 7); unsigned char* raw = (unsigned char*)malloc((size_t)ref.read + 16); unsigned char* w2 = raw + shift;
          // the item's bytes were taken before the window may be scribbled: they are the reference encoding's prefix of this window
          memcpy(w2, keep_bytes.data(), (size_t)ref.read);
          struct cbor_load_result r2; sa_begin(FaultSpec()); cbor_item_t* alone = cbor_load(w2, (size_t)ref.read, &r2); sa_end();
          if (!alone) fail("C14", "acceptable-item-rejected", where + fmt(": the item's own %llu byte(s), alone at another address, are rejected (code %d at %zu)", (unsigned long long)ref.read, (int)r2.error.code, r2.error.position));
          else {
            uint64_t d2 = impl_observables_digest(alone);
            if (d1 != d2) fail("C14", "tree-depends-on-buffer-alignment", where + fmt(": decoding the item's own %llu byte(s) alone, from a block starting %u byte(s) off, gives a tree whose getters show something else (lengths, code-point counts, values or payloads differ)", (unsigned long long)ref.read, shift));
            sa_begin(FaultSpec()); cbor_decref(&alone); sa_end();
          }
          free(raw); stat_add("items_decoded_again_at_another_alignment");
        }
      }
      if (!failed() && o.post_ops) {
        unsigned char* buf = nullptr; size_t bs = 0;
        sa_begin(FaultSpec());
        size_t wr = 0; lib([&]() { wr = cbor_serialize_alloc(item, &buf, &bs); });
        sa_end();
        std::vector<uint8_t> exp = ref_encode(ref.tree);
        if (wr != exp.size() || bs != exp.size() || !buf || memcmp(buf, exp.data(), exp.size()) != 0)
          fail("C03", "decoded-tree-serialises-differently", where + fmt(": serialised %zu byte(s), reference encoding has %zu", wr, exp.size()));
        if (buf) sa_client_free(buf);
        if (!failed() && o.deep_post) {
          // the rest of the pipeline a client runs on a decoded tree: describe, size, serialize into its own buffer, copy, release the copy
          size_t sz = 0, wr2 = 0; cbor_item_t* cp = nullptr; unsigned char* b2 = (unsigned char*)malloc(exp.size() + 1);
          uint64_t lsig = sa_live_sig();
          sa_begin(FaultSpec());
          lib([&]() { FILE* f = fopen("/dev/null", "w"); if (f) { cbor_describe(item, f); fclose(f); } sz = cbor_serialized_size(item); wr2 = cbor_serialize(item, b2, exp.size()); cp = cbor_copy(item); });
          sa_end();
          if (sz != exp.size() || wr2 != exp.size() || memcmp(b2, exp.data(), exp.size()) != 0) fail("C03", "decoded-tree-serialises-differently", where + ": size/serialize disagree with the reference encoding");
          free(b2);
          std::string why2;
          if (!cp) fail("C19,C11", "copy-of-decoded-tree-fails", where + ": cbor_copy returned NULL without any refused allocation");
          else { if (!impl_equals(cp, ref.tree, why2)) fail("C11", "copy-differs", where + ": " + why2); sa_begin(FaultSpec()); lib([&]() { cbor_decref(&cp); }); sa_end(); }
          if (!failed() && sa_live_sig() != lsig) fail("C04,C19", "pipeline-leaves-blocks", where + ": describe/size/serialize/copy/release of the decoded tree left blocks allocated");
        }
      }
      if (tree_out) *tree_out = ref.tree;
    }
    // release; everything must go
    sa_begin(FaultSpec());
    lib([&]() { cbor_decref(&item); });
    sa_end();
    if (item != nullptr) fail("C04", "decref-does-not-null", where + ": decref of the only reference left the pointer set");
    if (sa_live_sig() != live_before) fail("C04", "release-leaves-blocks", where + fmt(": %llu block(s) live after releasing the decoded item, %zu before the call", (unsigned long long)sa_live_count(), (size_t)live_before_n));
    stat_add("load_items");
  } else {
    // failure path: NULL, every field written, nothing left allocated, right code and position
    int rs = code_to_rstatus(out.code);
    if (res.read == SENT || res.error.position == SENT || (unsigned)res.error.code == 0xA5A5A5A5u)
      fail("C05", "result-field-unwritten", where + fmt(": failed load left %s%s%s unwritten", res.read == SENT ? "read " : "", res.error.position == SENT ? "error.position " : "", (unsigned)res.error.code == 0xA5A5A5A5u ? "error.code" : ""));
    if (sa_live_sig() != live_before) fail(injected ? "C05,C06" : "C05", "failed-load-leaks", where + fmt(": %llu block(s) live after the failed call, %zu before", (unsigned long long)sa_live_count(), (size_t)live_before_n));
    if (injected) {
      out.memerror = true;
      uint64_t attr_pos = ~0ull;
      if (o.check_position_attr && !ref.tok_end.empty() && ref.tok_end.size() <= 4096) {
        // black-box attribution: smallest j such that a fault-free load of the prefix ending after token j makes more than k requests
        uint64_t k = ow.first_refused;
        size_t lo = 0, hi = ref.tok_end.size() - 1;
        if (count_load_requests(w, (size_t)ref.tok_end[hi]) > k) {
          while (lo < hi) { size_t mid = (lo + hi) / 2; if (count_load_requests(w, (size_t)ref.tok_end[mid]) > k) hi = mid; else lo = mid + 1; }
          attr_pos = ref.tok_end[lo];
        }
      }
      bool ok_code = out.code == CBOR_ERR_MEMERROR;
      // the same head may also be the reference's own stopping point (e.g. illegal where it stands): either report is the first violation
      bool same_head_other = attr_pos != ~0ull && ref.st != R_ITEM && ref.admits(rs, out.position) && out.position == attr_pos;
      if (!ok_code && !same_head_other) fail("C05,C06", "refused-allocation-not-MEMERROR", where + fmt(": request %llu refused, result code %s at %zu", (unsigned long long)ow.first_refused, code_name(out.code), (size_t)out.position));
      else if (attr_pos != ~0ull && out.position != attr_pos) fail("C05", "MEMERROR-position", where + fmt(": request %llu refused; position %zu, expected %llu (just past the head whose allocation was refused)", (unsigned long long)ow.first_refused, (size_t)out.position, (unsigned long long)attr_pos));
      if (attr_pos != ~0ull) stat_add("memerror_positions_checked");
    } else if (ref.st == R_ITEM) {
      // is it the suffix that changes the outcome (C14), or is the item rejected even alone (C02, not claimed)?
      struct cbor_load_result r2; sa_begin(FaultSpec()); cbor_item_t* alone = cbor_load(w, (size_t)ref.read, &r2); sa_end();
      bool alone_ok = alone != nullptr;
      if (alone) { sa_begin(FaultSpec()); cbor_decref(&alone); sa_end(); }
      fail(alone_ok || ref.read == n ? "C14" : "C02", "acceptable-item-rejected", where + fmt(": NULL with %s at %zu; the buffer starts with a complete well-formed item of %llu byte(s)%s", code_name(out.code), (size_t)out.position, (unsigned long long)ref.read, alone_ok ? ", which decodes when nothing follows it" : ""));
    } else {
      if (!ref.admits(rs, out.position) && !(ref.st == R_NODATA && rs == R_NODATA))
        fail("C05", "wrong-code-or-position", where + fmt(": %s at %zu; expected %s at %llu%s", code_name(out.code), (size_t)out.position, rstatus_name(ref.st), (unsigned long long)ref.pos, ref.alt ? fmt(" (or %s at %llu)", rstatus_name(ref.alt_st), (unsigned long long)ref.alt_pos).c_str() : ""));
      out.nedata = ref.st == R_NEDATA || (rs == R_NEDATA);
      out.hard = !out.nedata && ref.st != R_NODATA;
      if (ref.st == R_MEMERROR) out.memerror = true;
      switch (ref.st) { case R_NEDATA: stat_add("fail_nedata"); break; case R_NODATA: stat_add("fail_nodata"); break; case R_MALFORMED: stat_add("fail_malformed"); break; case R_SYNTAX: stat_add("fail_syntax"); break; case R_MEMERROR: stat_add("fail_memerror_nesting_or_size"); break; default: break; }
      if (ref.alt) stat_add("fail_with_latitude");
    }
  }
  if (owned) free(owned);
  return out;
}
