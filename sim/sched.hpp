// simsched — who runs next (DESIGN.md §3.4). Real threads, one runs at a time,
// parked/released on futex words from code compiled WITHOUT sanitizer
// instrumentation (so TSan sees no happens-before between tasks).
#pragma once
#include <cstddef>
#include <cstdint>
#include <vector>
#include <functional>

enum SchedPointKind { SP_ALLOC = 0, SP_FREE = 1, SP_CALLBACK = 2, SP_FILE = 3, SP_API = 4, SP_KINDS = 5 };

struct SchedConfig {
  size_t stack_bytes = 1 << 20;     // per task, mmap'd with a guard page below
  unsigned preempt_permille = 500;  // probability of considering a switch at a point
  std::vector<uint32_t> choices;    // recorded choices (replay); consumed in order, then `rng_seed` stream continues
  uint64_t rng_seed = 0;
  uint64_t max_points = 50000000;   // step budget (beyond it tasks simply run to completion unscheduled)
};

struct SchedResult {
  std::vector<uint32_t> trace;      // task id chosen at every scheduling decision
  uint64_t points[SP_KINDS] = {0, 0, 0, 0, 0};
  uint64_t switches = 0;            // decisions that changed the running task
  uint64_t switches_inside_call = 0;// of those, taken at a point other than SP_API
  bool budget_exceeded = false;
  bool stack_overflow = false;      // a task hit its guard page
  int overflow_task = -1;
  uint64_t schedule_hash = 0;
};

int sched_cur();                    // current task id (0 = main / scheduler inactive)
bool sched_active();
void sched_point(int kind);         // a place where the library hands control outward
// Run tasks 1..n (bodies[i] is task i+1) to completion under the scheduler.
SchedResult sched_run(const SchedConfig& cfg, const std::vector<std::function<void()>>& bodies);
// Run one body on a fresh simulator-owned stack of the given size (no interleaving). Returns false on guard-page hit.
bool sched_run_on_stack(size_t stack_bytes, const std::function<void()>& body, size_t* used_bytes);
