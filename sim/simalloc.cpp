// simalloc implementation. See simalloc.hpp / DESIGN.md §3.3.
#include "simalloc.hpp"
#include "sched.hpp"
#include "util.hpp"
#include <sys/mman.h>
#include <cstdarg>
#include <cstdio>
#include <unordered_map>
#include <map>
#include <cassert>
#include <unistd.h>

extern "C" {
typedef void* (*_cbor_malloc_t)(size_t);
typedef void* (*_cbor_realloc_t)(void*, size_t);
typedef void (*_cbor_free_t)(void*);
void cbor_set_allocs(_cbor_malloc_t, _cbor_realloc_t, _cbor_free_t);
}

uint64_t sa_fired[8] = {0};
static const bool g_nofill = getenv("SIM_NOFILL") != nullptr;   // leave fresh memory undefined (valgrind must see uninitialised reads)
uint64_t sa_fired_toolarge = 0;

namespace {

const uint64_t TAG_MAGIC = 0x51A110C8ED0C0DEull;
const size_t TAG_HDR = 32, TAG_CANARY = 16;

struct Arena {
  unsigned char* base = nullptr;
  size_t cap = 0, bump = 0;
  bool ro = false;
  void init(size_t c) {
    cap = c;
    base = (unsigned char*)mmap(nullptr, cap, PROT_READ | PROT_WRITE, MAP_PRIVATE | MAP_ANONYMOUS | MAP_NORESERVE, -1, 0);
    if (base == MAP_FAILED) { perror("mmap arena"); _exit(2); }
  }
  void reset() {
    if (ro) protect(false);
    if (bump) {
      size_t used = (bump + 4095) & ~(size_t)4095;
      madvise(base, used, MADV_DONTNEED);
    }
    bump = 0;
  }
  bool pack = false;
  void* alloc(size_t n) {
    size_t need = (n + 15) & ~(size_t)15;
    if (need == 0) need = 16;
    if (!pack) need += 16;  // gap so blocks never touch (filled 0xEE); a packing allocator leaves none
    if (bump + need > cap) return nullptr;
    unsigned char* p = base + bump;
    bump += need;
    return p;
  }
  void protect(bool readonly) {
    size_t used = (bump + 4095) & ~(size_t)4095;
    if (used == 0) used = 4096;
    if (mprotect(base, used, readonly ? PROT_READ : (PROT_READ | PROT_WRITE)) != 0) { perror("mprotect arena"); _exit(2); }
    ro = readonly;
  }
  bool contains(const void* p) const { return (const unsigned char*)p >= base && (const unsigned char*)p < base + cap; }
};

struct State {
  SaKnobs knobs;
  // by id. Records of blocks released long ago are dropped at quiet points (sa_compact); ids keep counting.
  struct BlockTable {
    std::vector<BlockInfo> v; uint64_t base = 0;
    BlockInfo& operator[](uint64_t id) { return v[(size_t)(id - base)]; }
    const BlockInfo& operator[](uint64_t id) const { return v[(size_t)(id - base)]; }
    uint64_t size() const { return base + v.size(); }
    bool has(uint64_t id) const { return id >= base && id < base + v.size(); }
    void push_back(const BlockInfo& b) { v.push_back(b); }
    void clear() { v.clear(); base = 0; }
    std::vector<BlockInfo>::iterator begin() { return v.begin(); }
    std::vector<BlockInfo>::iterator end() { return v.end(); }
  } blocks;
  std::unordered_map<const void*, uint64_t> live;   // user pointer -> id (never iterated for output)
  uint64_t live_bytes = 0;
  uint64_t t_requests[SA_MAX_TASKS] = {0}, t_live[SA_MAX_TASKS] = {0}, t_xor[SA_MAX_TASKS] = {0}, t_seq[SA_MAX_TASKS] = {0}, t_bytes[SA_MAX_TASKS] = {0}, t_maxreq[SA_MAX_TASKS] = {0}, t_realloc_limit[SA_MAX_TASKS] = {0}, t_request_limit[SA_MAX_TASKS] = {0};
  OpWindow win[SA_MAX_TASKS];
  Arena arena[2];
  bool arenas_ready = false;
  int cur_arena = 0;
  bool installed = false;
  std::vector<uint64_t> arena_freed;                // ids of released arena blocks (for 0xDD verification)
} S;

int TK() { int t = sched_cur(); return (t < 0 || t >= SA_MAX_TASKS) ? 0 : t; }
OpWindow& W() { return S.win[TK()]; }

bool should_refuse(OpWindow& w, bool is_realloc, size_t size) {
  uint64_t r = w.requests;  // index of this request within the window
  bool refuse = false;
  int kind = w.open ? w.fault.kind : F_NONE;
  switch (kind) {
    case F_NTH: refuse = (r == w.fault.k); break;
    case F_FROM: refuse = (r >= w.fault.k); break;
    case F_REALLOC_ONLY: refuse = is_realloc && (w.realloc_req >= w.fault.k); break;
    case F_PROB: {
      w.prob_state = mix64(w.prob_state + 0x9E3779B97F4A7C15ull);
      refuse = (w.prob_state % 1000) < w.fault.k; break;
    }
    case F_QUOTA: refuse = (S.t_bytes[TK()] + size > w.fault.k); break;   // the budget is the task's own (identical alone and interleaved)
    default: break;
  }
  if (refuse) { sa_fired[kind]++; w.refused_injected++; }
  if (!refuse && size > (S.t_maxreq[TK()] ? S.t_maxreq[TK()] : S.knobs.max_request)) { refuse = true; sa_fired_toolarge++; }
  if (!refuse && is_realloc && S.t_realloc_limit[TK()] && w.reallocs >= S.t_realloc_limit[TK()]) { refuse = true; sa_fired_toolarge++; }
  if (!refuse && S.t_request_limit[TK()] && w.requests >= S.t_request_limit[TK()]) { refuse = true; sa_fired_toolarge++; }   // a harness budget on requests within one window   // a harness budget on resizes within one window
  return refuse;
}

unsigned char* backend_alloc(size_t n, int* arena_idx) {
  *arena_idx = -1;
  switch (S.knobs.backend) {
    case BE_ARENA: {
      *arena_idx = S.cur_arena;
      unsigned char* p = (unsigned char*)S.arena[S.cur_arena].alloc(n);
      if (p) { if (!g_nofill) memset(p, S.knobs.fill, n); size_t rounded = ((n + 15) & ~(size_t)15) ? ((n + 15) & ~(size_t)15) : 16; memset(p + n, 0xEE, rounded + (S.knobs.pack ? 0 : 16) - n); }
      return p;
    }
    case BE_TAG: {
      unsigned char* raw = (unsigned char*)malloc(n + TAG_HDR + TAG_CANARY);
      if (!raw) return nullptr;
      uint64_t hdr[4] = {TAG_MAGIC, (uint64_t)n, ~TAG_MAGIC, 0};
      memcpy(raw, hdr, TAG_HDR);
      if (!g_nofill) memset(raw + TAG_HDR, S.knobs.fill, n);
      memset(raw + TAG_HDR + n, 0xC5, TAG_CANARY);
      return raw + TAG_HDR;
    }
    default: {
      unsigned char* p = (unsigned char*)malloc(n);
      if (p && !g_nofill) memset(p, S.knobs.fill, n);
      return p;
    }
  }
}

void tag_verify(const BlockInfo& b, const char* when) {
  const unsigned char* raw = b.user - TAG_HDR;
  uint64_t hdr[4]; memcpy(hdr, raw, TAG_HDR);
  if (hdr[0] != TAG_MAGIC || hdr[1] != (uint64_t)b.size || hdr[2] != ~TAG_MAGIC)
    fail("C13,C04", "alloc:header-corrupted", fmt("block #%llu size %zu header damaged (%s)", (unsigned long long)b.id, b.size, when));
  for (size_t i = 0; i < TAG_CANARY; i++)
    if (b.user[b.size + i] != 0xC5) { fail("C13,C04,C07", "alloc:canary-overwritten", fmt("block #%llu size %zu canary byte %zu damaged (%s)", (unsigned long long)b.id, b.size, i, when)); break; }
}

void backend_release(BlockInfo& b) {
  if (b.arena == SA_ARENA_HUGE) { munmap(b.user, b.size); return; }     // a lazily committed mapping handed in by the client: never touched, simply unmapped
  switch (S.knobs.backend) {
    case BE_ARENA:
      if (!S.arena[b.arena].ro) memset(b.user, 0xDD, b.size);
      S.arena_freed.push_back(b.id);
      break;
    case BE_TAG:
      tag_verify(b, "release");
      memset(b.user, 0xDD, b.size);
      free(b.user - TAG_HDR);
      break;
    default:
      memset(b.user, 0xDD, b.size);
      free(b.user);
  }
}

uint64_t new_block(unsigned char* p, size_t n, uint8_t origin, int arena_idx) {
  BlockInfo b; b.id = S.blocks.size(); b.user = p; b.size = n; b.live = true; b.origin = origin; b.task = TK(); b.arena = arena_idx; b.local = S.t_seq[b.task]++;
  S.blocks.push_back(b);
  S.live[p] = b.id; S.t_live[b.task]++; S.t_bytes[b.task] += n; S.t_xor[b.task] ^= mix64(b.local + 1);
  S.live_bytes += n;
  return b.id;
}

void* do_alloc(size_t n, uint8_t origin, bool is_realloc_req) {
  OpWindow& w = W();
  bool refuse = should_refuse(w, is_realloc_req, n);
  w.requests++; S.t_requests[TK()]++;
  if (is_realloc_req) { w.reallocs++; w.realloc_req++; } else w.mallocs++;
  if (refuse) { w.refused++; if (w.first_refused == ~0ull) w.first_refused = w.requests - 1; g_log.ev("refuse", n, origin, 0); return nullptr; }
  int ai; unsigned char* p = backend_alloc(n, &ai);
  if (!p) { w.refused++; sa_fired_toolarge++; g_log.ev("refuse-backend", n, origin, 0); return nullptr; }
  uint64_t id = new_block(p, n, origin, ai);
  w.allocated.push_back(id);
  g_log.ev("alloc", S.blocks[id].local, n, 0);
  return p;
}

}  // namespace

void sa_install() {
  if (!S.installed) { cbor_set_allocs(sim_malloc, sim_realloc, sim_free); S.installed = true; }
}

void sa_reset(const SaKnobs& k) {
  // release whatever the previous run left (a failed run may leave blocks)
  for (auto& b : S.blocks) if (b.live) {
    if (b.arena == SA_ARENA_HUGE) munmap(b.user, b.size);
    else if (S.knobs.backend == BE_TAG) free(b.user - TAG_HDR);
    else if (S.knobs.backend == BE_DIRECT) free(b.user);
    b.live = false;
  }
  S.blocks.clear(); S.live.clear(); S.live_bytes = 0; for (int i = 0; i < SA_MAX_TASKS; i++) S.t_requests[i] = S.t_live[i] = S.t_xor[i] = S.t_seq[i] = S.t_bytes[i] = S.t_maxreq[i] = S.t_realloc_limit[i] = S.t_request_limit[i] = 0; S.arena_freed.clear();
  for (auto& w : S.win) w = OpWindow();
  S.knobs = k;
  if (k.backend == BE_ARENA) {
    if (!S.arenas_ready) { S.arena[0].init((size_t)256 << 20); S.arena[1].init((size_t)64 << 20); S.arenas_ready = true; }
    S.arena[0].reset(); S.arena[1].reset(); S.arena[0].pack = S.arena[1].pack = k.pack;
  } else if (S.arenas_ready) { S.arena[0].reset(); S.arena[1].reset(); }
  S.cur_arena = 0;
}

const SaKnobs& sa_knobs() { return S.knobs; }
void sa_set_max_request(uint64_t n) { S.t_maxreq[TK()] = n; }
void sa_set_realloc_limit(uint64_t n) { S.t_realloc_limit[TK()] = n; }
void sa_set_request_limit(uint64_t n) { S.t_request_limit[TK()] = n; }
uint64_t sa_max_request() { uint64_t o = S.t_maxreq[TK()]; return o ? o : S.knobs.max_request; }

void sa_begin(const FaultSpec& f) {
  OpWindow& w = W();
  w = OpWindow(); w.fault = f; w.open = true; w.prob_state = f.seed;
}
OpWindow sa_end() { OpWindow& w = W(); OpWindow r = w; w.open = false; w.fault = FaultSpec(); return r; }
OpWindow& sa_window() { return W(); }

uint64_t sa_live_count() { return S.live.size(); }
uint64_t sa_live_bytes() { return g_task_mode ? S.t_bytes[TK()] : S.live_bytes; }
uint64_t sa_live_sig() { int t = TK(); return hash_comb(S.t_live[t], S.t_xor[t]); }
uint64_t sa_live_count_mine() { return g_task_mode ? S.t_live[TK()] : S.live.size(); }
uint64_t sa_total_requests() { if (g_task_mode) return S.t_requests[TK()]; uint64_t t = 0; for (int i = 0; i < SA_MAX_TASKS; i++) t += S.t_requests[i]; return t; }
const BlockInfo* sa_find(const void* p) { auto it = S.live.find(p); return it == S.live.end() ? nullptr : &S.blocks[it->second]; }
const BlockInfo* sa_find_containing(const void* p) {
  for (auto& b : S.blocks) if (b.live && (const unsigned char*)p >= b.user && (const unsigned char*)p < b.user + (b.size ? b.size : 1)) return &b;
  return nullptr;
}
const BlockInfo* sa_by_id(uint64_t id) { return S.blocks.has(id) ? &S.blocks[id] : nullptr; }
void sa_compact() {
  // nothing is live and no window is open: the records of dead blocks are history nobody will ask about again
  if (!S.live.empty() || sched_active() || S.knobs.backend == BE_ARENA) return;   // the arena keeps the ids of released blocks to re-check their fill
  for (int i = 0; i < SA_MAX_TASKS; i++) if (S.win[i].open) return;
  if (S.blocks.v.size() < 4096) return;
  S.blocks.base += S.blocks.v.size(); S.blocks.v.clear(); S.blocks.v.shrink_to_fit();
}
std::vector<uint64_t> sa_live_ids() { std::vector<uint64_t> v; for (auto& b : S.blocks) if (b.live) v.push_back(b.id); return v; }
std::vector<BlockImage> sa_snapshot() {
  std::vector<BlockImage> v;
  for (auto& b : S.blocks) if (b.live) { BlockImage im; im.id = b.id; im.bytes.assign(b.user, b.user + b.size); v.push_back(std::move(im)); }
  return v;
}

void* sa_client_malloc(size_t n) {
  int ai; unsigned char* p = backend_alloc(n, &ai);
  if (!p) { fprintf(stderr, "HARNESS: client allocation of %zu failed\n", n); _exit(2); }
  uint64_t id = new_block(p, n, 2, ai);
  g_log.ev("client-alloc", S.blocks[id].local, n);
  return p;
}
void* sa_client_map_huge(size_t n) {
  // address space without memory: what a client gets from mmap() for a sparse file or a lazily committed region. Registered as a live
  // client block so that the library may take ownership of it (cbor_bytestring_set_handle) and release it through the installed free.
  void* p = mmap(nullptr, n, PROT_READ | PROT_WRITE, MAP_PRIVATE | MAP_ANONYMOUS | MAP_NORESERVE, -1, 0);
  if (p == MAP_FAILED) return nullptr;
  uint64_t id = new_block((unsigned char*)p, n, 2, SA_ARENA_HUGE);
  g_log.ev("client-map", S.blocks[id].local, n);
  return p;
}
void sa_client_free(void* p) {
  auto it = S.live.find(p);
  if (it == S.live.end()) { fprintf(stderr, "HARNESS: client free of unknown pointer\n"); _exit(2); }
  BlockInfo& b = S.blocks[it->second];
  S.live.erase(it); S.live_bytes -= b.size; b.live = false; S.t_live[b.task]--; S.t_bytes[b.task] -= b.size; S.t_xor[b.task] ^= mix64(b.local + 1);
  g_log.ev("client-free", b.local);
  backend_release(b);
}

void sa_set_arena(int idx) { S.cur_arena = idx; }
void sa_arena_protect(int idx, bool ro) { S.arena[idx].protect(ro); }
bool sa_arena_contains(int idx, const void* p) { return S.arenas_ready && S.arena[idx].contains(p); }
uint64_t sa_arena_offset(int idx, const void* p) { return (uint64_t)((const unsigned char*)p - S.arena[idx].base); }

void sa_check_integrity() {
  if (S.knobs.backend == BE_TAG) { for (auto& b : S.blocks) if (b.live) tag_verify(b, "end of run"); }
  if (S.knobs.backend == BE_ARENA) {
    for (uint64_t id : S.arena_freed) {
      const BlockInfo& b = S.blocks[id];
      if (b.arena < 0 || S.arena[b.arena].ro) continue;
      for (size_t i = 0; i < b.size; i++) if (b.user[i] != 0xDD) {
        fail("C04,C13", "alloc:write-after-release", fmt("released block #%llu (size %zu) modified at offset %zu after release", (unsigned long long)id, b.size, i));
        return;
      }
    }
    for (auto& b : S.blocks) {   // gaps between blocks must still hold 0xEE
      if (b.arena < 0 || S.arena[b.arena].ro) continue;     // not an arena block (a client mapping)
      size_t rounded = ((b.size + 15) & ~(size_t)15); if (!rounded) rounded = 16;
      for (size_t i = b.size; i < rounded + (S.knobs.pack ? 0 : 16); i++) if (b.user[i] != 0xEE) {
        fail("C13,C04,C07", "alloc:write-past-block", fmt("byte %zu past the end of block #%llu (size %zu) was modified", i - b.size, (unsigned long long)b.id, b.size));
        return;
      }
    }
  }
}

extern "C" {

void* sim_malloc(size_t n) {
  sched_point(SP_ALLOC);
  return do_alloc(n, 0, false);
}

void* sim_realloc(void* ptr, size_t n) {
  sched_point(SP_ALLOC);
  if (ptr == nullptr) return do_alloc(n, 1, true);
  OpWindow& w = W();
  auto it = S.live.find(ptr);
  if (it == S.live.end()) {
    const BlockInfo* in = sa_find_containing(ptr);
    fail("C13,C04", in ? "alloc:realloc-interior-pointer" : "alloc:realloc-unknown-pointer",
         fmt("realloc(%s, %zu): pointer is not a live block issued by the installed allocator", in ? "interior" : "unknown", n));
    w.requests++; S.t_requests[TK()]++; w.reallocs++; w.realloc_req++; w.refused++;
    return nullptr;
  }
  uint64_t oid = it->second;
  bool refuse = should_refuse(w, true, n);
  w.requests++; S.t_requests[TK()]++; w.reallocs++; w.realloc_req++;
  if (refuse) { w.refused++; if (w.first_refused == ~0ull) w.first_refused = w.requests - 1; g_log.ev("refuse-realloc", S.blocks[oid].local, n, 0); return nullptr; }
  BlockInfo old = S.blocks[oid];
  if (n > old.size && old.size >= 64) { double r = (double)n / (double)old.size; if (r < w.min_growth) w.min_growth = r; }
  if (old.task != sched_cur() && sched_active()) fail("C17", "alloc:cross-task-realloc", fmt("task %d resized block #%llu obtained by task %d", sched_cur(), (unsigned long long)oid, old.task));
  if (S.knobs.backend == BE_DIRECT && S.knobs.realloc_mode == 1) {
    // natural libc realloc (may or may not move)
    unsigned char* np = (unsigned char*)realloc(old.user, n);
    if (!np) { w.refused++; sa_fired_toolarge++; return nullptr; }
    if (n > old.size && !g_nofill) memset(np + old.size, S.knobs.fill, n - old.size);
    S.live.erase(old.user); S.live_bytes -= old.size; S.blocks[oid].live = false; S.t_live[old.task]--; S.t_bytes[old.task] -= old.size; S.t_xor[old.task] ^= mix64(old.local + 1);
    uint64_t nid = new_block(np, n, 1, -1);
    w.freed.push_back(oid); w.allocated.push_back(nid); w.moved.emplace_back(oid, nid);
    g_log.ev("realloc", S.blocks[oid].local, S.blocks[nid].local, n);
    return np;
  }
  if (S.knobs.backend == BE_ARENA && S.knobs.realloc_mode == 1 && !S.arena[old.arena].ro) {
    // a legal allocator may resize in place and return the SAME pointer when the block's capacity allows it
    size_t cap = ((old.size + 15) & ~(size_t)15); if (!cap) cap = 16;
    if (n <= cap) {
      if (n > old.size) memset(old.user + old.size, S.knobs.fill, n - old.size); else memset(old.user + n, 0xEE, old.size - n);
      S.live_bytes += n; S.live_bytes -= old.size; S.t_bytes[old.task] += n; S.t_bytes[old.task] -= old.size; S.blocks[oid].size = n;
      g_log.ev("realloc-inplace", S.blocks[oid].local, n, 0);
      return old.user;
    }
  }
  // move: new block, copy, release old
  int ai; unsigned char* np = backend_alloc(n, &ai);
  if (!np) { w.refused++; sa_fired_toolarge++; return nullptr; }
  memcpy(np, old.user, n < old.size ? n : old.size);
  S.live.erase(old.user); S.live_bytes -= old.size; S.blocks[oid].live = false; S.t_live[old.task]--; S.t_bytes[old.task] -= old.size; S.t_xor[old.task] ^= mix64(old.local + 1);
  backend_release(S.blocks[oid]);
  uint64_t nid = new_block(np, n, 1, ai);
  w.freed.push_back(oid); w.allocated.push_back(nid); w.moved.emplace_back(oid, nid);
  g_log.ev("realloc", S.blocks[oid].local, S.blocks[nid].local, n);
  return np;
}

void sim_free(void* ptr) {
  sched_point(SP_FREE);
  OpWindow& w = W();
  if (ptr == nullptr) { w.null_frees++; return; }
  auto it = S.live.find(ptr);
  if (it == S.live.end()) {
    // was it ever ours?
    bool was = false; uint64_t wid = 0;
    for (auto& b : S.blocks) if (b.user == ptr && !b.live) { was = true; wid = b.id; }
    const BlockInfo* in = was ? nullptr : sa_find_containing(ptr);
    if (was) fail("C04,C13", "alloc:double-release", fmt("block #%llu handed to free a second time", (unsigned long long)wid));
    else if (in) fail("C13,C04", "alloc:free-interior-pointer", fmt("free of a pointer %zu bytes into block #%llu", (size_t)((unsigned char*)ptr - in->user), (unsigned long long)in->id));
    else fail("C13,C04", "alloc:free-unknown-pointer", "free of a pointer the installed allocator never issued");
    return;
  }
  BlockInfo& b = S.blocks[it->second];
  if (b.task != sched_cur() && sched_active() && b.origin != 2) fail("C17", "alloc:cross-task-release", fmt("task %d released block #%llu obtained by task %d", sched_cur(), (unsigned long long)b.id, b.task));
  S.live.erase(it); S.live_bytes -= b.size; b.live = false; S.t_live[b.task]--; S.t_bytes[b.task] -= b.size; S.t_xor[b.task] ^= mix64(b.local + 1);
  w.frees++; w.freed.push_back(b.id);
  g_log.ev("free", b.local, b.size, 0);
  backend_release(b);
}

// ---- link-time traps: library objects have malloc/free/... renamed to these (objcopy --redefine-sym)
static void trap(const char* what) {
  fail("C13", std::string("alloc:direct-libc-") + what, std::string("library code called libc ") + what + " directly instead of the installed allocator");
}
void* __sim_trap_malloc(size_t n) { trap("malloc"); return malloc(n); }
void* __sim_trap_calloc(size_t a, size_t b) { trap("calloc"); return calloc(a, b); }
void* __sim_trap_realloc(void* p, size_t n) {
  trap("realloc");
  if (p && sa_find(p)) return nullptr;   // one of ours: libc must not touch it
  return realloc(p, n);
}
void __sim_trap_free(void* p) {
  trap("free");
  if (p && (sa_find(p) || sa_find_containing(p))) return;   // one of ours: keep the process alive, the violation is recorded
  if (S.knobs.backend == BE_ARENA || S.knobs.backend == BE_TAG) return;
  free(p);
}
char* __sim_trap_strdup(const char* s) { trap("strdup"); return strdup(s); }
void* __sim_trap_aligned_alloc(size_t a, size_t n) { trap("aligned_alloc"); return aligned_alloc(a, n); }
int __sim_trap_posix_memalign(void** out, size_t a, size_t n) { trap("posix_memalign"); return posix_memalign(out, a, n); }
char* __sim_trap_strndup(const char* s, size_t n) { trap("strndup"); return strndup(s, n); }
char* __sim_trap___strdup(const char* s) { trap("strdup"); return strdup(s); }
void* __sim_trap_reallocarray(void* p, size_t a, size_t b) { trap("reallocarray"); return reallocarray(p, a, b); }
void* __sim_trap_memalign(size_t a, size_t n) { trap("memalign"); return aligned_alloc(a, n); }
void* __sim_trap_valloc(size_t n) { trap("valloc"); return aligned_alloc(4096, (n + 4095) & ~(size_t)4095); }
ssize_t __sim_trap_getline(char** l, size_t* n, FILE* f) { trap("getline"); return getline(l, n, f); }
FILE* __sim_trap_open_memstream(char** p, size_t* n) { trap("open_memstream"); return open_memstream(p, n); }
int __sim_trap_vasprintf(char** out, const char* f, va_list ap) { trap("vasprintf"); return vasprintf(out, f, ap); }
int __sim_trap_asprintf(char** out, const char* f, ...) { trap("asprintf"); va_list ap; va_start(ap, f); int r = vasprintf(out, f, ap); va_end(ap); return r; }
}
