// Recording callback table for cbor_stream_decode: every one of the 24 slots records itself.
#pragma once
#include "impl.hpp"
#include "sched.hpp"

enum Slot {
  SL_UINT8, SL_UINT16, SL_UINT32, SL_UINT64, SL_NEGINT8, SL_NEGINT16, SL_NEGINT32, SL_NEGINT64,
  SL_BSTR, SL_BSTR_START, SL_TSTR, SL_TSTR_START, SL_ARRAY, SL_ARRAY_INDEF, SL_MAP, SL_MAP_INDEF,
  SL_TAG, SL_FLOAT2, SL_FLOAT4, SL_FLOAT8, SL_UNDEF, SL_NULL, SL_BOOL, SL_BREAK, SL_COUNT
};
static inline const char* slot_name(int s) {
  static const char* n[] = {"uint8", "uint16", "uint32", "uint64", "negint8", "negint16", "negint32", "negint64", "byte_string", "byte_string_start", "string", "string_start",
                            "array_start", "indef_array_start", "map_start", "indef_map_start", "tag", "float2", "float4", "float8", "undefined", "null", "boolean", "indef_break"};
  return (s >= 0 && s < SL_COUNT) ? n[s] : "?";
}

struct RecEv {
  int slot = 0;
  uint64_t arg = 0;                 // integer / count / tag / bool / float bits
  bool ptr_inside = true;           // string payload pointer lies inside the window
  uint64_t ptr_off = 0;             // offset of the payload pointer from the window start
  std::vector<uint8_t> payload;
};
struct Recorder {
  std::vector<RecEv> evs;
  const uint8_t* win = nullptr; size_t win_len = 0;
  void begin(const uint8_t* w, size_t n) { evs.clear(); win = w; win_len = n; }
};

const struct cbor_callbacks* recorder_callbacks();

// what the reference tokeniser says a complete token must produce
RecEv expected_event(const Tok& t, const uint8_t* p);
// compare (NaN float arguments compare equal to any NaN)
bool event_matches(const RecEv& got, const RecEv& exp, std::string& why);
