// sim — the simulator binary. Sub-commands:
//   sim gen    <prop> <seed> <idx> <tier>            print the plan of run idx (pure function of seed)
//   sim run    <prop> <seed> <from> <to> <tier> [--hashes f] [--samples n] [--digests f]
//   sim replay <planfile>                            execute one plan in this (fresh) process
//   sim info                                         build parameters of the library under test
#include "sim.hpp"
#include "impl.hpp"
#include "sched.hpp"
#include "protect.hpp"
#include <cstdarg>
#if defined(__SSE__)
#include <xmmintrin.h>
#endif
#include <csignal>
#include <map>
#include <set>
#include <unistd.h>
#include <sys/time.h>
#include <fcntl.h>

EvLog g_logs[SA_MAX_TASKS + 1];
bool g_task_mode = false;
Violation g_viol;
RunCtx g_run;
static std::map<std::string, uint64_t> g_stats;
static volatile uint64_t g_inflight = ~0ull;

std::string fmt(const char* f, ...) {
  char buf[1024]; va_list ap; va_start(ap, f); vsnprintf(buf, sizeof buf, f, ap); va_end(ap); return buf;
}
void stat_add(const char* name, uint64_t v) { g_stats[name] += v; }
void stat_max(const char* name, uint64_t v) { uint64_t& s = g_stats[name]; if (v > s) s = v; }

static bool prop_in(const std::string& props, const std::string& p) {
  size_t i = 0;
  while (i < props.size()) { size_t j = props.find(',', i); if (j == std::string::npos) j = props.size(); if (props.compare(i, j - i, p) == 0) return true; i = j + 1; }
  return false;
}
void fail(const char* props, const std::string& cls, const std::string& detail) {
  if (!prop_in(props, g_run.prop)) { g_run.foreign++; g_run.foreign_seen = true; if (g_log.trace) fprintf(stderr, "foreign violation [%s] %s: %s\n", props, cls.c_str(), detail.c_str()); return; }
  if (g_viol.set) return;
  g_viol.set = true; g_viol.cls = g_run.prop + ":" + cls; g_viol.detail = detail; g_viol.props = props;
  if (g_log.trace) fprintf(stderr, "VIOLATION %s: %s\n", g_viol.cls.c_str(), detail.c_str());
}

// ---------------------------------------------------------------- registry
static const Workload WL[] = {
    {"stream", gen_stream, exec_stream}, {"seq", gen_seq, exec_seq}, {"hist", gen_hist, exec_hist}, {"fault", gen_fault, exec_fault},
    {"tasks", gen_tasks, exec_tasks},    {"ro", gen_ro, exec_ro},    {"nest", gen_nest, exec_nest},
};
const Workload* find_workload(const std::string& name) { for (auto& w : WL) if (name == w.name) return &w; return nullptr; }
const char* workload_for(const std::string& p, uint64_t run_seed) {
  if (p == "C08" || p == "C09") return "stream";
  if (p == "C14") return "seq";
  if (p == "C05") return (run_seed % 3 == 0) ? "fault" : "seq";
  if (p == "C06") return "fault";
  if (p == "C03" || p == "C04" || p == "C11" || p == "C12") return "hist";
  if (p == "C13") { uint64_t k = run_seed % 10; return k < 6 ? "hist" : k < 8 ? "stream" : "seq"; }
  if (p == "C17") return "tasks";
  if (p == "C18") return "ro";
  if (p == "C19") return "nest";
  return "hist";
}

SaKnobs knobs_alloc(const J& plan) {
  SaKnobs k; const J& kn = plan.at("knobs");
  k.backend = (int)kn.getu("be", BE_DIRECT);
  k.realloc_mode = (int)kn.getu("rm", 0);
  k.max_request = kn.getu("maxreq", (uint64_t)1 << 20);
  k.pack = kn.getu("pack", 0) != 0;
  { uint64_t f = kn.getu("fill", 0); k.fill = f == 1 ? 0x00 : f == 2 ? 0xFF : 0xAA; }
#ifdef SIM_FLAVOUR_TSAN
  if (k.backend == BE_ARENA) k.backend = BE_DIRECT;
#endif
  return k;
}

// ---------------------------------------------------------------- shared generators
uint64_t gen_u64(Rng& r) {
  static const uint64_t B[] = {0, 1, 23, 24, 25, 255, 256, 257, 65535, 65536, 65537, 0xffffffffull, 0x100000000ull, 0x100000001ull, 0x7fffffffffffffffull, 0x8000000000000000ull, 0xfffffffffffffffeull, 0xffffffffffffffffull};
  switch (r.below(4)) {
    case 0: return B[r.below(sizeof B / sizeof B[0])];
    case 1: { uint64_t b = B[r.below(sizeof B / sizeof B[0])]; return b + r.below(5) - 2; }
    case 2: { unsigned bits = (unsigned)r.range(1, 64); uint64_t v = r.next(); return bits == 64 ? v : (v & ((1ull << bits) - 1)); }
    default: return r.below(300);
  }
}
uint64_t gen_len(Rng& r, uint64_t cap) {
  static const uint64_t B[] = {0, 1, 2, 22, 23, 24, 25, 254, 255, 256, 257};
  uint64_t v;
  switch (r.below(8)) {
    case 0: case 1: case 2: v = r.below(6); break;
    case 3: case 4: v = B[r.below(sizeof B / sizeof B[0])]; break;
    case 5: v = r.below(40); break;
    case 6: v = r.below(600); break;
    default: { static const uint64_t C[] = {65534, 65535, 65536, 65537, 70000}; v = r.chance(1, 6) ? C[r.below(5)] : r.below(2000); }
  }
  return v > cap ? cap : v;
}
void gen_payload(uint64_t seed, size_t n, int flavour, std::vector<uint8_t>& out) {
  out.clear(); out.reserve(n);
  uint64_t s = seed;
  auto nx = [&]() { s = mix64(s + 0x9E3779B97F4A7C15ull); return s; };
  if (flavour == 0) { while (out.size() < n) { uint64_t v = nx(); for (int i = 0; i < 8 && out.size() < n; i++) out.push_back((uint8_t)(v >> (8 * i))); } return; }
  if (flavour == 1) { while (out.size() < n) { uint64_t v = nx(); out.push_back((v >> 40) % 16 == 0 ? (uint8_t)((v >> 8) % 33 == 32 ? 0x7f : (v >> 8) % 33) : (uint8_t)(0x20 + v % 95)); } return; }   // printable ASCII with the odd control character (tab, newline, NUL, DEL)
  if (flavour == 3 && n >= 4 && (seed & 1)) {   // mostly ASCII with one stray byte: what a word-at-a-time scanner chews through
    while (out.size() < n) out.push_back((uint8_t)(0x20 + nx() % 95));
    uint64_t v = nx(); size_t at = (size_t)(v % n); out[at] = (uint8_t)((v >> 32) % 2 ? 0xC3 : (0x80 | ((v >> 40) & 0x3f))); if ((v >> 33) % 2 && at + 9 < n) out[at + 9] = 0xA9;
    return;
  }
  // utf8: whole scalars while they fit, pad with ascii
  while (out.size() < n) {
    size_t room = n - out.size(); uint64_t v = nx(); unsigned k = (unsigned)(v % 4) + 1; if (k > room) k = (unsigned)room;
    uint32_t cp;
    switch (k) {
      case 1: cp = 0x20 + (uint32_t)((v >> 8) % 95); out.push_back((uint8_t)cp); break;
      case 2: cp = 0x80 + (uint32_t)((v >> 8) % (0x800 - 0x80)); out.push_back((uint8_t)(0xC0 | (cp >> 6))); out.push_back((uint8_t)(0x80 | (cp & 63))); break;
      case 3: cp = 0x800 + (uint32_t)((v >> 8) % (0x10000 - 0x800)); if (cp >= 0xD800 && cp <= 0xDFFF) cp = 0x20AC; out.push_back((uint8_t)(0xE0 | (cp >> 12))); out.push_back((uint8_t)(0x80 | ((cp >> 6) & 63))); out.push_back((uint8_t)(0x80 | (cp & 63))); break;
      default: cp = 0x10000 + (uint32_t)((v >> 8) % (0x110000 - 0x10000)); out.push_back((uint8_t)(0xF0 | (cp >> 18))); out.push_back((uint8_t)(0x80 | ((cp >> 12) & 63))); out.push_back((uint8_t)(0x80 | ((cp >> 6) & 63))); out.push_back((uint8_t)(0x80 | (cp & 63)));
    }
  }
  if (flavour == 3 && n > 0) { uint64_t v = nx(); out[v % n] = (uint8_t)(0x80 | (v >> 32)); }   // break it somewhere (may still be valid by luck)
}


// a container whose members all occupy ONE byte (small integers, simple values, empty strings and containers): the densest
// input there is - the announced member count equals the number of bytes that follow, with nothing to spare
MV dense_mv(Rng& r) {
  MV v; bool map = r.chance(1, 3);
  v.kind = map ? MK_MAP : MK_ARRAY; v.definite = !r.chance(1, 6);
  static const unsigned NA[] = {24, 24, 25, 23, 26, 48, 255, 256, 257, 600}; static const unsigned NM[] = {12, 12, 13, 11, 24, 128, 300};
  unsigned n = map ? 2 * NM[r.below(7)] : NA[r.below(10)];
  for (unsigned i = 0; i < n; i++) {
    MV c;
    switch (r.below(8)) {
      case 0: c.kind = MK_CTRL; c.val = 20 + r.below(4); break;
      case 1: c.kind = r.chance(1, 2) ? MK_BSTR : MK_TSTR; c.definite = true; break;
      case 2: c.kind = r.chance(1, 2) ? MK_ARRAY : MK_MAP; c.definite = true; break;
      case 3: c.kind = MK_NEGINT; c.width = 1; c.val = r.below(24); break;
      default: c.kind = MK_UINT; c.width = 1; c.val = r.below(24);
    }
    v.kids.push_back(std::move(c));
  }
  return v;
}

MV gen_mv(Rng& r, const GenProfile& p, unsigned depth) {
  MV v;
  unsigned k = (unsigned)r.below(depth >= p.max_depth ? 7 : 12);
  switch (k) {
    case 0: case 1: v.kind = r.chance(1, 2) ? MK_UINT : MK_NEGINT; v.width = 1 << r.below(4); v.val = gen_u64(r); if (v.width < 8) v.val &= ((1ull << (8 * v.width)) - 1); break;
    case 2: {
      v.kind = MK_FLOAT; v.width = 2 << r.below(3);
      if (v.width == 2) v.val = r.chance(1, 4) ? (uint64_t[]){0, 0x8000, 0x7c00, 0xfc00, 0x7e00, 0x0001, 0x03ff, 0x0400, 0x7bff, 0x3c00}[r.below(10)] : r.below(65536);
      else if (v.width == 4) v.val = r.chance(1, 4) ? (uint64_t[]){0, 0x80000000u, 0x7f800000u, 0xff800000u, 0x7fc00000u, 0x7f800001u, 1, 0x007fffffu, 0x00800000u, 0x3f800000u}[r.below(10)] : (r.next() & 0xffffffffu);
      else v.val = r.chance(1, 4) ? (uint64_t[]){0, 0x8000000000000000ull, 0x7ff0000000000000ull, 0xfff0000000000000ull, 0x7ff8000000000000ull, 0x7ff0000000000001ull, 1, 0x000fffffffffffffull, 0x3ff0000000000000ull, 0x7fefffffffffffffull}[r.below(10)] : r.next();
      break;
    }
    case 3: v.kind = MK_CTRL; v.val = 20 + r.below(4); break;
    case 4: case 5: {
      v.kind = r.chance(1, 2) ? MK_BSTR : MK_TSTR; v.definite = true;
      uint64_t n = gen_len(r, p.allow_big ? 70000 : p.big_len_cap);
      gen_payload(r.next(), (size_t)n, v.kind == MK_BSTR ? 0 : (int)(1 + r.below(3)), v.bytes);
      break;
    }
    case 6: {
      v.kind = r.chance(1, 2) ? MK_BSTR : MK_TSTR; v.definite = false;
      unsigned n = (unsigned)r.below(4); if (r.chance(1, 16)) { static const unsigned NC[] = {8, 15, 16, 17, 24, 33, 56, 64, 65, 120, 257}; n = NC[r.below(11)]; }   // chunk-rich now and then
      for (unsigned i = 0; i < n; i++) { MV c; c.kind = v.kind; c.definite = true; gen_payload(r.next(), (size_t)gen_len(r, n > 3 ? 6 : 40), v.kind == MK_BSTR ? 0 : 2, c.bytes); v.kids.push_back(std::move(c)); }
      break;
    }
    case 7: case 8: {
      if (r.chance(1, 25)) return dense_mv(r);
      v.kind = MK_ARRAY; v.definite = r.chance(1, 2);
      unsigned n = (unsigned)r.below(p.max_kids + 1); if (r.chance(1, 40)) n = (unsigned)r.range(23, 26);
      for (unsigned i = 0; i < n; i++) v.kids.push_back(gen_mv(r, p, depth + 1));
      break;
    }
    case 9: case 10: {
      v.kind = MK_MAP; v.definite = r.chance(1, 2);
      unsigned n = (unsigned)r.below(p.max_kids + 1);
      for (unsigned i = 0; i < 2 * n; i++) v.kids.push_back(gen_mv(r, p, depth + 1));
      break;
    }
    default: { static const uint64_t IANA[] = {0, 1, 2, 3, 4, 5, 16, 17, 18, 21, 22, 23, 24, 32, 33, 34, 35, 36, 37, 100, 258, 1004, 55799}; v.kind = MK_TAG; v.val = r.chance(1, 3) ? IANA[r.below(sizeof IANA / sizeof IANA[0])] : gen_u64(r); v.kids.push_back(gen_mv(r, p, depth + 1)); break; }
  }
  return v;
}

uint64_t gen_fpmode(Rng& kn) { uint64_t v = 0; if (kn.below(4) == 0) v |= 1; if (kn.below(4) == 0) v |= (1 + kn.below(3)) << 1; return v; }

void gen_encode(Rng& r, const MV& v, std::vector<uint8_t>& out) {
  if (!r.chance(1, 4)) { ref_encode(v, out); return; }
  unsigned pm = (unsigned)(r.chance(1, 3) ? 1000 : r.range(100, 600));   // every head, or some of them
  ref_encode_wire(v, [&]() -> unsigned { return r.below(1000) < pm ? 1 + (unsigned)r.below(4) : 0; }, out);
}

MV deep_mv(Rng& r, unsigned depth) {
  MV leaf; GenProfile gp; gp.max_depth = 0; leaf = r.chance(1, 5) ? dense_mv(r) : gen_mv(r, gp, 99);
  MV cur = leaf;
  for (unsigned i = 0; i < depth; i++) {
    MV w;
    switch (r.below(6)) {
      case 0: w.kind = MK_TAG; w.val = gen_u64(r); w.kids.push_back(std::move(cur)); break;
      case 1: w.kind = MK_ARRAY; w.definite = true; w.kids.push_back(std::move(cur)); break;
      case 2: w.kind = MK_ARRAY; w.definite = false; if (r.chance(1, 3)) { MV e; e.kind = MK_ARRAY; e.definite = true; w.kids.push_back(e); } w.kids.push_back(std::move(cur)); break;
      case 3: { w.kind = MK_MAP; w.definite = true; MV k; k.kind = MK_UINT; k.width = 1; k.val = i & 0xff; w.kids.push_back(k); w.kids.push_back(std::move(cur)); break; }
      case 4: { w.kind = MK_MAP; w.definite = false; MV k; k.kind = MK_UINT; k.width = 1; k.val = 1; w.kids.push_back(std::move(cur)); w.kids.push_back(k); break; }   // child in key position
      default: { w.kind = MK_ARRAY; w.definite = true; MV z; z.kind = MK_CTRL; z.val = 22; w.kids.push_back(z); w.kids.push_back(std::move(cur)); }
    }
    cur = std::move(w);
  }
  return cur;
}

// ---------------------------------------------------------------- buffers beyond 4 GiB
#include <sys/mman.h>
bool g_rec_no_payload = false;
FILE* g_shared_describe = nullptr;
uint8_t* huge_region() {
  static uint8_t* r = nullptr; static bool tried = false;
  if (!tried) { tried = true; void* p = mmap(nullptr, HUGE_REGION_BYTES, PROT_READ | PROT_WRITE, MAP_PRIVATE | MAP_ANONYMOUS | MAP_NORESERVE, -1, 0); if (p != MAP_FAILED) r = (uint8_t*)p; }
  return r;
}

// ---------------------------------------------------------------- synthetic locale
#include <clocale>
#include <sys/stat.h>
static char g_locdir[256] = "";
static void locale_cleanup() {
  if (!g_locdir[0]) return;
  std::string d(g_locdir); unlink((d + "/xx_XX/LC_NUMERIC").c_str()); rmdir((d + "/xx_XX").c_str()); rmdir(d.c_str());
}
bool comma_locale(bool on) {
  if (!on) { setlocale(LC_NUMERIC, "C"); return true; }
  if (!g_locdir[0]) {
    const char* t = getenv("TMPDIR"); snprintf(g_locdir, sizeof g_locdir, "%s/simloc-%d", t && *t ? t : "/var/tmp", (int)getpid());
    mkdir(g_locdir, 0700); std::string d = std::string(g_locdir) + "/xx_XX"; mkdir(d.c_str(), 0700);
    // minimal glibc LC_NUMERIC category file: decimal_point ",", no grouping
    static const unsigned char image[] = {0x14, 0x11, 0x03, 0x20, 6, 0, 0, 0, 0x20, 0, 0, 0, 0x22, 0, 0, 0, 0x23, 0, 0, 0, 0x24, 0, 0, 0, 0x28, 0, 0, 0, 0x2c, 0, 0, 0,
                                          ',', 0, 0, 0, ',', 0, 0, 0, 0, 0, 0, 0, 'A', 'N', 'S', 'I', '_', 'X', '3', '.', '4', '-', '1', '9', '6', '8', 0};
    FILE* f = fopen((d + "/LC_NUMERIC").c_str(), "wb"); if (f) { fwrite(image, 1, sizeof image, f); fclose(f); }
    setenv("LOCPATH", g_locdir, 1); atexit(locale_cleanup);
  }
  return setlocale(LC_NUMERIC, "xx_XX") != nullptr;
}

// ---------------------------------------------------------------- crash attribution
static void emit_inflight(const char* why) {
  char buf[160]; int n = snprintf(buf, sizeof buf, "\nINFLIGHT idx=%llu why=%s\n", (unsigned long long)g_inflight, why);
  if (n > 0) { ssize_t w = write(2, buf, (size_t)n); (void)w; w = write(1, buf, (size_t)n); (void)w; }
}
static void on_signal(int sig) {
  emit_inflight(sig == SIGSEGV ? "SIGSEGV" : sig == SIGBUS ? "SIGBUS" : sig == SIGABRT ? "SIGABRT" : sig == SIGFPE ? "SIGFPE" : (sig == SIGALRM || sig == SIGPROF) ? "WATCHDOG" : "SIGNAL");
  signal(sig, SIG_DFL);
  if (sig == SIGALRM || sig == SIGPROF) _exit(99);
  raise(sig);
}
extern "C" void __sanitizer_set_death_callback(void (*)(void)) __attribute__((weak));
static void on_sanitizer_death() { emit_inflight("SANITIZER"); }

extern "C" __attribute__((used, visibility("default"))) const char* __asan_default_options() {
  return "exitcode=77:detect_leaks=0:allocator_may_return_null=1:handle_abort=0:handle_segv=1:abort_on_error=0:detect_stack_use_after_return=0:max_allocation_size_mb=512:quarantine_size_mb=32";
}
extern "C" __attribute__((used, visibility("default"))) const char* __ubsan_default_options() { return "exitcode=77:print_stacktrace=1:halt_on_error=1"; }
extern "C" __attribute__((used, visibility("default"))) const char* __tsan_default_options() { return "exitcode=66:halt_on_error=1:report_signal_unsafe=0:history_size=4:ignore_interceptors_accesses=1:ignore_noninstrumented_modules=0"; }

static void install_handlers() {
  if (__sanitizer_set_death_callback) __sanitizer_set_death_callback(on_sanitizer_death);
  static char altstack[1 << 16];
  stack_t ss; ss.ss_sp = altstack; ss.ss_size = sizeof altstack; ss.ss_flags = 0; sigaltstack(&ss, nullptr);
  struct sigaction sa; memset(&sa, 0, sizeof sa); sa.sa_handler = on_signal; sa.sa_flags = SA_ONSTACK | SA_NODEFER;
  sigaction(SIGABRT, &sa, nullptr); sigaction(SIGALRM, &sa, nullptr); sigaction(SIGPROF, &sa, nullptr); sigaction(SIGFPE, &sa, nullptr);
#if !defined(SIM_FLAVOUR_ASAN)
  prot_install_handler(emit_inflight);
#endif
}

// ---------------------------------------------------------------- run one plan
struct RunOut { bool viol; uint64_t digest; uint64_t plan_hash; };

static uint64_t run_seed_for(uint64_t seed, const std::string& prop, uint64_t idx) { return hash_comb(hash_comb(seed, hash_str(prop)), idx); }

static J make_plan(const std::string& prop, uint64_t seed, uint64_t idx, const std::string& tier) {
  uint64_t rs = run_seed_for(seed, prop, idx);
  const Workload* w = find_workload(workload_for(prop, rs));
  J plan = w->gen(prop, rs, tier);
  plan.set("w", w->name); plan.set("prop", prop); plan.set("seed", seed); plan.set("idx", idx);
  return plan;
}

static void exec_plan(const J& plan) {
  g_viol = Violation(); for (auto& l : g_logs) l.reset(); g_task_mode = false; g_run.nontrivial = false; g_run.foreign_seen = false; g_run.sim_time = 0; g_run.distinct_key = 0;
  g_run.prop = plan.gets("prop");
  const Workload* w = find_workload(plan.gets("w"));
  if (!w) { fprintf(stderr, "HARNESS: unknown workload '%s'\n", plan.gets("w").c_str()); exit(2); }
  // watchdog: CPU time of this process (a loaded machine must not turn a slow run into a harness fault); the wall-clock
  // alarm is only a backstop for a run that blocks without consuming CPU
  { uint64_t wd = plan.at("knobs").getu("watchdog", 120); struct itimerval it; memset(&it, 0, sizeof it); it.it_value.tv_sec = (time_t)wd; setitimer(ITIMER_PROF, &it, nullptr); alarm((unsigned)(wd * 10)); }
#if defined(__SSE__)
  // the calling thread's floating-point mode is part of the environment: an application linked with -ffast-math runs with
  // flush-to-zero / denormals-are-zero set, and the library must keep float bits exact there too
  unsigned csr = _mm_getcsr(); uint64_t fpm = plan.at("knobs").getu("fpmode", 0); bool fp = fpm != 0;
  if (fp) {
    unsigned c2 = csr; if (fpm & 1) { c2 |= 0x8040u; stat_add("runs_with_ftz_daz"); }
    if (fpm & 6) { c2 = (c2 & ~0x6000u) | ((unsigned)((fpm >> 1) & 3) << 13); stat_add("runs_with_directed_rounding"); }   // MXCSR.RC: the library is compiled for SSE arithmetic
    _mm_setcsr(c2);
  }
#endif
  w->exec(plan);
#if defined(__SSE__)
  if (fp) _mm_setcsr(csr);
#endif
  { struct itimerval it; memset(&it, 0, sizeof it); setitimer(ITIMER_PROF, &it, nullptr); alarm(0); }
}

static J viol_json(const J& plan) {
  J v = J::obj();
  v.set("prop", g_run.prop); v.set("cls", g_viol.cls); v.set("detail", g_viol.detail); v.set("oracle_props", g_viol.props);
  v.set("digest", g_log.digest); v.set("plan", plan);
  return v;
}

int main(int argc, char** argv) {
  setvbuf(stdout, nullptr, _IOLBF, 0);
  if (argc < 2) { fprintf(stderr, "usage: sim gen|run|replay|info ...\n"); return 2; }
  std::string cmd = argv[1];
  for (auto& l : g_logs) l.trace = getenv("SIM_TRACE") != nullptr;
  install_handlers();
  if (cmd == "info") {
    J o = J::obj(); o.set("max_stack", impl_max_stack()); o.set("growth", impl_growth()); o.set("sizeof_item", sizeof(cbor_item_t));
#if defined(SIM_FLAVOUR_ASAN)
    o.set("flavour", "asan");
#elif defined(SIM_FLAVOUR_TSAN)
    o.set("flavour", "tsan");
#else
    o.set("flavour", "plain");
#endif
    printf("%s\n", o.dump().c_str()); return 0;
  }
  sa_install();
  if (cmd == "gen" && argc >= 6) {
    J plan = make_plan(argv[2], strtoull(argv[3], nullptr, 10), strtoull(argv[4], nullptr, 10), argv[5]);
    printf("%s\n", plan.dump().c_str()); return 0;
  }
  if (cmd == "replay" && argc >= 3) {
    FILE* f = fopen(argv[2], "rb"); if (!f) { perror(argv[2]); return 2; }
    std::string s; char buf[65536]; size_t n; while ((n = fread(buf, 1, sizeof buf, f)) > 0) s.append(buf, n); fclose(f);
    J doc; if (!J::parse(s, doc)) { fprintf(stderr, "HARNESS: cannot parse %s\n", argv[2]); return 2; }
    const J& plan = doc.has("plan") ? doc.at("plan") : doc;
    g_run.tier = "replay"; g_inflight = plan.getu("idx");
    exec_plan(plan);
    if (g_viol.set) { printf("VIOL %s\n", viol_json(J::obj()).dump().c_str()); return 1; }
    printf("OK digest=%llu nontrivial=%d foreign=%llu\n", (unsigned long long)g_log.digest, (int)g_run.nontrivial, (unsigned long long)g_run.foreign);
    return 0;
  }
  if (cmd == "run" && argc >= 7) {
    std::string prop = argv[2]; uint64_t seed = strtoull(argv[3], nullptr, 10), from = strtoull(argv[4], nullptr, 10), to = strtoull(argv[5], nullptr, 10);
    g_run.tier = argv[6];
    const char* hashes_path = nullptr; const char* digests_path = nullptr; unsigned want_samples = 2; int inflight_fd = -1;
    for (int i = 7; i + 1 < argc; i += 2) {
      if (!strcmp(argv[i], "--hashes")) hashes_path = argv[i + 1];
      else if (!strcmp(argv[i], "--digests")) digests_path = argv[i + 1];
      else if (!strcmp(argv[i], "--samples")) want_samples = (unsigned)atoi(argv[i + 1]);
      else if (!strcmp(argv[i], "--inflight-file")) inflight_fd = open(argv[i + 1], O_WRONLY | O_CREAT | O_TRUNC, 0644);
    }
    std::vector<uint64_t> hashes; std::vector<uint64_t> digests; J samples = J::arr();
    uint64_t runs = 0, nontriv = 0, viols = 0, digest_chain = 0, sim_time = 0;
    for (uint64_t idx = from; idx < to; idx++) {
      g_inflight = idx;
      if (inflight_fd >= 0) { char b[32]; int n = snprintf(b, sizeof b, "%-20llu\n", (unsigned long long)idx); ssize_t w = pwrite(inflight_fd, b, (size_t)n, 0); (void)w; }
      J plan = make_plan(prop, seed, idx, g_run.tier);
      exec_plan(plan);
      runs++; digest_chain = hash_comb(digest_chain, g_log.digest); sim_time += g_run.sim_time;
      if (digests_path) digests.push_back(g_log.digest);
      if (g_viol.set) { viols++; printf("VIOL %s\n", viol_json(plan).dump().c_str()); fflush(stdout); if (viols >= 5) break; continue; }
      if (g_run.nontrivial) {
        nontriv++;
        J p2 = plan; p2.set("seed", (uint64_t)0); p2.set("idx", (uint64_t)0);
        hashes.push_back(g_run.distinct_key ? g_run.distinct_key : hash_str(p2.dump()));
        if (samples.size() < want_samples) samples.push(plan);
      }
    }
    g_inflight = ~0ull;
    if (hashes_path) { FILE* f = fopen(hashes_path, "wb"); if (f) { fwrite(hashes.data(), 8, hashes.size(), f); fclose(f); } }
    if (digests_path) { FILE* f = fopen(digests_path, "wb"); if (f) { fwrite(digests.data(), 8, digests.size(), f); fclose(f); } }
    J d = J::obj(); d.set("runs", runs); d.set("nontrivial", nontriv); d.set("violations", viols); d.set("foreign", g_run.foreign); d.set("digest", digest_chain); d.set("sim_time", sim_time);
    J st = J::obj(); for (auto& kv : g_stats) st.set(kv.first, kv.second);
    for (int k = 1; k <= 5; k++) { static const char* nm[] = {"", "fault_fired_nth", "fault_fired_from", "fault_fired_realloc_only", "fault_fired_prob", "fault_fired_quota"}; st.set(nm[k], sa_fired[k]); }
    st.set("fault_fired_toolarge", sa_fired_toolarge);
    d.set("stats", st); d.set("samples", samples);
    printf("DONE %s\n", d.dump().c_str());
    return 0;
  }
  fprintf(stderr, "bad arguments\n"); return 2;
}
