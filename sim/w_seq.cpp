// W3 tree mode — CBOR sequence receiver over simnet: C14 (items decode independently of what follows),
// C05 (connection cut at any byte, refused allocations, corrupted tails; cleanup and completeness),
// also used by C13 (allocator configurations). DESIGN.md §3.6, §5.C05, §5.C14.
#include "sim.hpp"
#include "impl.hpp"
#include "loadcheck.hpp"
#include <queue>

// ------------------------------------------------------------------ generation
static void gen_tail(Rng& r, const GenProfile& gp, std::vector<uint8_t>& out) {
  switch (r.below(8)) {
    case 0: case 1: break;                                                       // nothing
    case 2: out.push_back((uint8_t)r.below(256)); break;                         // one arbitrary byte
    case 3: { std::vector<uint8_t> it = ref_encode(gen_mv(r, gp)); size_t k = r.below(it.size()); out.insert(out.end(), it.begin(), it.begin() + k); break; }  // truncated item
    case 4: gen_encode(r, gen_mv(r, gp), out); break;                               // a further well-formed item
    case 5: { unsigned n = (unsigned)r.range(1, 12); for (unsigned i = 0; i < n; i++) out.push_back((uint8_t)r.below(256)); break; }   // garbage
    case 6: { std::vector<uint8_t> it = ref_encode(gen_mv(r, gp)); if (!it.empty()) it[r.below(it.size())] ^= (uint8_t)(1u << r.below(8)); out.insert(out.end(), it.begin(), it.end()); break; }  // corrupted successor
    default: { static const uint8_t B[] = {0xff, 0xff, 0xff, 0x1c, 0x5f, 0x9f, 0xbf, 0xc0, 0xf8, 0x7f, 0x81, 0xa1}; out.push_back(B[r.below(sizeof B)]); if (r.chance(1, 2)) { unsigned n = (unsigned)r.below(3); for (unsigned i = 0; i < n; i++) out.push_back(r.chance(1, 2) ? 0xff : (uint8_t)r.below(256)); } }
  }
}

J gen_seq(const std::string& prop, uint64_t run_seed, const std::string& tier) {
  (void)tier;
  Rng g(run_seed, "gen"), net(run_seed, "net"), kn(run_seed, "knobs"), fr(run_seed, "fault");
  J plan = J::obj(); J knobs = J::obj();
  if (prop != "C05lite" && g.chance(1, 300)) {
    // x followed by more than 4 GiB of y (here: zero bytes, each a valid item): a receiver that maps a large file and decodes item by item
    GenProfile gp; gp.max_depth = 2; gp.max_kids = 3; std::vector<uint8_t> x;
    if (g.chance(1, 2)) { static const uint64_t BIGC[] = {65535, 65536, 70000, 100000, 262145}; uint64_t cnt = g.chance(1, 2) ? BIGC[g.below(5)] : g.range(1000, 3000);   /* counts beyond 16 bits too: x may itself be wide */ bool map = g.chance(1, 3); ref_head(map ? 5 : 4, cnt, x); for (uint64_t i = 0; i < cnt * (map ? 2 : 1); i++) x.push_back((uint8_t)(i % 24)); }
    else gen_encode(g, gen_mv(g, gp), x);
    J h = J::obj(); h.set("hex", to_hex(x)); J sizes = J::arr();
    for (int i = 0; i < 10; i++) { uint64_t base = (uint64_t)1 << 32; sizes.push(g.chance(1, 2) ? base + g.below(4000) : g.chance(1, 2) ? base + g.below(100000) : 2 * base + g.below(4000)); }
    sizes.push(((uint64_t)1 << 32) + 512); sizes.push((uint64_t)1 << 32);
    h.set("sizes", sizes); plan.set("huge", h); plan.set("conns", J::arr());
    knobs.set("be", (uint64_t)BE_DIRECT); knobs.set("maxreq", (uint64_t)1 << 20); plan.set("knobs", knobs);
    return plan;
  }
  knobs.set("buf", kn.below(3)); knobs.set("empty_call", kn.chance(1, 4) ? 1 : 0);
  knobs.set("be", prop == "C13" ? kn.below(3) : (kn.chance(1, 5) ? (uint64_t)BE_TAG : (uint64_t)BE_DIRECT));
  knobs.set("rm", kn.below(2));
  knobs.set("maxreq", kn.chance(1, 4) ? 4096 : (1u << 20));
  knobs.set("fill", kn.below(4) == 0 ? kn.range(1, 2) : 0);   // fresh memory: mostly 0xAA, sometimes all-zero or all-ones
  knobs.set("fpmode", gen_fpmode(kn));   // the calling thread's floating-point environment: FTZ/DAZ in a quarter of the runs, a directed rounding mode in a quarter
  plan.set("knobs", knobs);
  GenProfile gp; gp.max_depth = 3; gp.max_kids = 3; gp.big_len_cap = 200;
  J conns = J::arr();
  unsigned nconn = (unsigned)g.range(1, 2);
  bool lite = prop == "C05lite";
  bool want_faults = prop == "C05" || lite || prop == "C06" || (prop == "C13" && kn.chance(1, 3));
  for (unsigned s = 0; s < nconn; s++) {
    std::vector<uint8_t> bytes; bool deep_item = false;
    unsigned nitems = (unsigned)g.range(1, 6);
    gp.allow_big = g.chance(1, 40);
    for (unsigned i = 0; i < nitems; i++) {
      if (g.chance(1, 12)) {   // a definite container announcing more than any allocator will give
        static const uint8_t H[] = {0x9a, 0x9b, 0xba, 0xbb};
        uint8_t h = H[g.below(4)]; bytes.push_back(h); int w = (h & 1) ? 8 : 4; uint64_t cnt = g.chance(1, 2) ? gen_u64(g) | (1ull << 28) : (1ull << g.range(10, 40));
        if (g.chance(1, 3)) cnt = ((uint64_t)g.range(1, 15) << g.range(60, 63)) + (g.chance(1, 2) ? 0 : g.below(4));   // counts whose byte size wraps around 2^64 to (almost) nothing
        for (int k = w - 1; k >= 0; k--) bytes.push_back((uint8_t)(cnt >> (8 * k)));
      } else if (!(lite && impl_max_stack() > 64) && g.chance(1, impl_max_stack() <= 64 ? 7 : 150)) {   // nesting around the decoder's limit (what 'nests beyond the limit' and 'never a hard error for a prefix' are about)
        unsigned L = impl_max_stack(); std::vector<uint64_t> kinds; unsigned nk = (unsigned)g.range(1, 4); for (unsigned k = 0; k < nk; k++) kinds.push_back(g.below(12));
        unsigned lk = (unsigned)g.below(6); unsigned ll = nest_leaf_levels(lk);
        uint64_t want; switch (g.below(6)) { case 0: want = L > 1 ? L - 1 : 1; break; case 1: case 2: want = L; break; case 3: case 4: want = (uint64_t)L + 1; break; default: want = (uint64_t)L + g.below(5); }
        uint64_t depth = want > ll ? want - ll : (ll ? 0 : 1); unsigned lv = 0;
        nest_chain(kinds, (size_t)depth, lk, bytes, &lv); if (L > 64) deep_item = true;
      } else if (g.chance(1, 10)) {   // a chunked string with an intruder: something that is not a definite chunk of its own kind between (or instead of) the chunks
        bool text = g.chance(1, 2); uint8_t open = text ? 0x7f : 0x5f, chunk = text ? 0x60 : 0x40, other = text ? 0x40 : 0x60;
        unsigned nw = (unsigned)g.below(3); std::vector<uint8_t> closers;
        for (unsigned k = 0; k < nw; k++) switch (g.below(4)) { case 0: bytes.push_back(0x81); break; case 1: bytes.push_back(0x9f); closers.push_back(0xff); break; case 2: bytes.push_back(0xc1); break; default: bytes.push_back(0xa1); bytes.push_back(0x00); }
        bytes.push_back(open);
        auto put_chunk = [&](uint8_t base) { unsigned n = (unsigned)g.below(4); bytes.push_back((uint8_t)(base + n)); for (unsigned q = 0; q < n; q++) bytes.push_back((uint8_t)('a' + g.below(26))); };
        unsigned before = (unsigned)g.below(3); for (unsigned k = 0; k < before; k++) put_chunk(chunk);
        switch (g.below(10)) {
          case 0: bytes.push_back((uint8_t)g.below(24)); break;                                   // small unsigned
          case 1: bytes.push_back((uint8_t)(0x20 + g.below(24))); break;                          // small negative
          case 2: put_chunk(other); break;                                                         // definite string of the other kind
          case 3: bytes.push_back(open); { unsigned m = (unsigned)g.below(3); for (unsigned k = 0; k < m; k++) put_chunk(chunk); } bytes.push_back(0xff); break;   // chunked string of the same kind, closed
          case 4: bytes.push_back(text ? 0x5f : 0x7f); if (g.chance(1, 2)) put_chunk(other); bytes.push_back(0xff); break;   // chunked string of the other kind
          case 5: bytes.push_back(g.chance(1, 2) ? 0x80 : 0xa0); break;                           // empty container
          case 6: bytes.push_back(0x81); put_chunk(chunk); break;                                 // array holding a would-be chunk
          case 7: bytes.push_back(0xc0); put_chunk(chunk); break;                                 // tagged would-be chunk
          case 8: bytes.push_back(g.chance(1, 2) ? 0xf6 : 0xf4); break;                           // null / false
          default: bytes.push_back(0xf9); bytes.push_back(0x3c); bytes.push_back(0x00);           // half float
        }
        if (g.chance(2, 3)) { unsigned after = (unsigned)g.below(3); for (unsigned k = 0; k < after; k++) put_chunk(chunk); bytes.push_back(0xff); for (size_t k = closers.size(); k-- > 0;) bytes.push_back(closers[k]); }
      } else if (i + 1 == nitems && g.chance(1, 4)) {   // an item that closes with several adjacent breaks
        MV outer; outer.kind = g.chance(1, 2) ? MK_ARRAY : MK_MAP; outer.definite = false;
        unsigned pre = (unsigned)g.below(3); for (unsigned k = 0; k < pre * (outer.kind == MK_MAP ? 2u : 1u); k++) outer.kids.push_back(gen_mv(g, gp, 2));
        MV inner; switch (g.below(4)) { case 0: inner.kind = MK_ARRAY; inner.definite = false; break; case 1: inner.kind = MK_MAP; inner.definite = false; break; case 2: inner.kind = MK_BSTR; inner.definite = false; break; default: inner.kind = MK_TSTR; inner.definite = false; }
        if (inner.kind == MK_ARRAY && g.chance(1, 2)) { MV in2; in2.kind = MK_ARRAY; in2.definite = false; inner.kids.push_back(in2); }
        if (outer.kind == MK_MAP) { MV k; k.kind = MK_UINT; k.width = 1; k.val = 1; outer.kids.push_back(k); }
        outer.kids.push_back(inner);
        if (g.chance(1, 3)) { MV t; t.kind = MK_TAG; t.val = 1; t.kids.push_back(outer); ref_encode(t, bytes); } else ref_encode(outer, bytes);
      } else if (g.chance(1, 14)) {   // the densest input: a wide container of one-byte members as the last thing in a few single-child wrappers - no byte to spare anywhere
        MV cur = dense_mv(g); unsigned nw = (unsigned)g.below(5);
        for (unsigned k = 0; k < nw; k++) {
          MV w;
          switch (g.below(5)) {
            case 0: w.kind = MK_TAG; w.val = g.below(24); w.kids.push_back(std::move(cur)); break;
            case 1: case 2: w.kind = MK_ARRAY; w.definite = true; w.kids.push_back(std::move(cur)); break;
            case 3: { w.kind = MK_MAP; w.definite = true; MV key; key.kind = MK_UINT; key.width = 1; key.val = 0; w.kids.push_back(key); w.kids.push_back(std::move(cur)); break; }
            default: { w.kind = MK_MAP; w.definite = false; MV key; key.kind = MK_UINT; key.width = 1; key.val = 0; w.kids.push_back(key); w.kids.push_back(std::move(cur)); }
          }
          cur = std::move(w);
        }
        gen_encode(g, cur, bytes);
      } else gen_encode(g, gen_mv(g, gp), bytes);
    }
    gen_tail(g, gp, bytes);
    if (g.chance(1, 10) && !bytes.empty()) bytes[g.below(bytes.size())] ^= (uint8_t)(1u << g.below(8));   // channel corruption
    size_t len = bytes.size();
    J c = J::obj(); c.set("hex", to_hex(bytes));
    std::vector<uint64_t> cuts;
    unsigned style = (unsigned)net.below(5); if (deep_item) style = 2;   // a deep chain is retried as a whole on every arrival: deliver it in one or two pieces
    if (style == 0 && len <= 150) cuts.assign(len, 1);
    else if (style == 1) { uint64_t m = net.range(2, 17); if (len / m > 400) m = len / 400 + 1;   /* the receiver re-decodes the pending item on every arrival: bound the quadratic work */
      cuts.assign(len / m + 1, m); }
    else if (style == 2) { if (deep_item && net.chance(1, 2)) cuts.push_back(net.range(1, len)); }
    else { uint64_t left = len; while (left > 0 && cuts.size() < 48) { uint64_t k = net.range(1, std::max<uint64_t>(1, std::min<uint64_t>(left, net.chance(1, 3) ? 3 : 30))); cuts.push_back(k); left -= k; } }
    J jc = J::arr(); for (auto v : cuts) jc.push(v); c.set("cuts", jc);
    J d = J::arr(); for (size_t i = 0; i <= cuts.size(); i++) d.push(net.below(4) == 0 ? net.below(50) : net.below(3)); c.set("delays", d);
    if (net.chance(1, 2) || prop == "C05" || lite) c.set("close", net.below(len + 1));
    if (want_faults && fr.chance(2, 3)) {
      // faults attached to receiver calls: [call index, kind, k]
      J fl = J::arr(); unsigned nf = (unsigned)fr.range(1, 3);
      for (unsigned i = 0; i < nf; i++) {
        J f = J::arr(); f.push(fr.below(12));
        unsigned kind = (unsigned)fr.below(8);
        if (kind < 3) { f.push((uint64_t)F_NTH); f.push(fr.below(40)); }
        else if (kind < 6) { f.push((uint64_t)F_FROM); f.push(fr.below(40)); }
        else if (kind == 6) { f.push((uint64_t)F_PROB); f.push(fr.range(50, 400)); }          // each request refused with this per-mille probability
        else { f.push((uint64_t)F_QUOTA); f.push(fr.below(600)); }                             // memory budget: live bytes may grow by at most this much during the call
        fl.push(f);
      }
      c.set("faults", fl);
    }
    conns.push(c);
  }
  plan.set("conns", conns);
  return plan;
}

// ------------------------------------------------------------------ execution
namespace {
struct SConn {
  std::vector<uint8_t> stream, buf; std::vector<uint64_t> cuts, delays;
  std::vector<std::vector<uint64_t>> faults;
  uint64_t deliver_total = 0, base = 0, arrived = 0, off = 0, sent = 0, next_frag = 0, fragments = 0, calls = 0;
  bool stopped = false;
  std::vector<MV> received; uint64_t items_with_suffix = 0, failing_calls = 0; bool cap_refused = false;
};
struct Event { uint64_t at, seq; int conn; bool operator>(const Event& o) const { return at != o.at ? at > o.at : seq > o.seq; } };
}

static void exec_seq_huge(const J& h) {
  uint8_t* R = huge_region(); if (!R) { stat_add("huge_region_unavailable"); return; }
  std::vector<uint8_t> x = from_hex(h.gets("hex")); if (x.empty() || x.size() > 600000) return;
  memcpy(R, x.data(), x.size());
  uint64_t items = 0;
  for (size_t i = 0; i < h.at("sizes").size() && !failed() && !g_run.foreign_seen; i++) {
    uint64_t n = h.at("sizes").iu(i); if (n > HUGE_REGION_BYTES - 16) n = HUGE_REGION_BYTES - 16; if (n < x.size()) continue;
    LoadOpts o; std::string where = fmt("item followed by zero bytes up to a buffer length of 2^32 %+lld", (long long)(n - ((uint64_t)1 << 32))); o.where = where.c_str(); o.post_ops = false;
    // decoding x needs a known number of requests whatever follows it; a decoder that keeps eating the gigabytes behind x must run
    // into a refusal (and then into the oracle) long before it has eaten the harness's memory
    uint64_t lim = 4 * count_load_requests(x.data(), x.size()) + 1000;
    sa_set_request_limit(lim);
    LoadOutcome r = checked_load(R, (size_t)n, o, nullptr);
    sa_set_request_limit(0);
    if (!r.item && r.ref.st == R_ITEM && r.requests >= lim) fail("C14", "decoding-depends-on-suffix", where + fmt(": the first item needs %llu allocator request(s) when decoded alone; with the gigabytes behind it the call had made %llu when the harness stopped granting them", (unsigned long long)((lim - 1000) / 4), (unsigned long long)r.requests));
    if (r.item) items++;
    stat_add("huge_buffer_loads");
  }
  memset(R, 0, x.size());
  g_run.nontrivial = items >= 1;
}

void exec_seq(const J& plan) {
  if (!g_task_mode) sa_reset(knobs_alloc(plan));
  if (plan.has("huge")) { if (!g_task_mode) exec_seq_huge(plan.at("huge")); return; }
  const J& kn = plan.at("knobs");
  int buf_policy = (int)kn.getu("buf"); bool empty_call = kn.getu("empty_call") != 0;
  const J& jc = plan.at("conns");
  std::vector<SConn> conns(jc.size());
  std::priority_queue<Event, std::vector<Event>, std::greater<Event>> q;
  uint64_t seq = 0, now = 0;
  for (size_t i = 0; i < jc.size(); i++) {
    SConn& c = conns[i]; const J& j = jc[i];
    c.stream = from_hex(j.gets("hex"));
    for (size_t k = 0; k < j.at("cuts").size(); k++) c.cuts.push_back(std::max<uint64_t>(1, j.at("cuts").iu(k)));
    for (size_t k = 0; k < j.at("delays").size(); k++) c.delays.push_back(j.at("delays").iu(k) % 1000);
    c.deliver_total = j.has("close") ? std::min<uint64_t>(j.getu("close"), c.stream.size()) : c.stream.size();
    for (size_t k = 0; k < j.at("faults").size(); k++) { const J& f = j.at("faults")[k]; c.faults.push_back({f.iu(0), f.iu(1), f.iu(2)}); }
    q.push(Event{c.delays.empty() ? 0 : c.delays[0], seq++, (int)i});
    if (c.deliver_total == 0) c.stopped = true;
  }
  auto receiver_step = [&](SConn& c, int ci, bool at_eof) {
    // the sequence receiver: decode as many items as have arrived; on NOTENOUGHDATA wait for the next fragment
    uint64_t guard = 0;
    while (!c.stopped && !failed() && !g_run.foreign_seen) {
      uint64_t avail = c.arrived - c.off;
      if (avail == 0 && !(at_eof && empty_call && c.calls < 100000)) break;
      LoadOpts o; o.exact_window = buf_policy == 2; o.L = 0; std::string where = fmt("conn %d offset %llu", ci, (unsigned long long)c.off); o.where = where.c_str();
      uint64_t callno = c.calls++;
      for (auto& f : c.faults) if (f[0] == callno) {
        // fault index modulo the number of requests the call actually makes
        uint64_t N = count_load_requests(c.buf.data() + (c.off - c.base), (size_t)avail);
        if (N > 0) {
          o.fault.kind = (int)f[1];
          if (o.fault.kind == F_NTH || o.fault.kind == F_FROM) o.fault.k = f[2] % N;
          else if (o.fault.kind == F_QUOTA) o.fault.k = sa_live_bytes() + f[2];
          else { o.fault.k = f[2] % 1000; o.fault.seed = f[0] * 7919 + f[2]; }
        }
      }
      MV tree;
      const uint8_t* win = avail ? c.buf.data() + (c.off - c.base) : nullptr;
      LoadOutcome r = checked_load(win, (size_t)avail, o, &tree);
      if (avail == 0) { if (!r.item && r.code != CBOR_ERR_NODATA) fail("C05", "empty-input-not-NODATA", where + fmt(": code %d", r.code)); break; }
      if (r.item) {
        if (r.ref.st != R_ITEM) { c.stopped = true; break; }
        if (r.read < avail) c.items_with_suffix++;
        c.received.push_back(std::move(tree));
        // consumed bytes may be overwritten at once
        if (buf_policy == 0) memset(c.buf.data() + (c.off - c.base), 0x5A, (size_t)r.read);
        c.off += r.read;
        if (buf_policy == 1) { c.buf.erase(c.buf.begin(), c.buf.begin() + (c.off - c.base)); c.base = c.off; }
      } else {
        c.failing_calls++;
        if (r.memerror && o.fault.kind != F_NONE) continue;        // the injected fault is gone on the retry
        if (r.memerror && r.refused) c.cap_refused = true;   // a growth step beyond the allocator's single-request cap: permanent, and not the receiver's fault
        if (r.nedata) break;                                        // wait for more
        c.stopped = true;                                           // hard error: give up on this connection
      }
      if (++guard > 20000000) { fail("C14", "receiver-livelock", "receiver made 100000 calls on one delivery"); break; }
    }
  };
  uint64_t steps = 0;
  while (!q.empty() && !failed()) {
    Event e = q.top(); q.pop(); now = e.at;
    SConn& c = conns[e.conn];
    if (c.sent >= c.deliver_total) continue;
    uint64_t sz = c.next_frag < c.cuts.size() ? c.cuts[c.next_frag] : (c.deliver_total - c.sent);
    if (sz > c.deliver_total - c.sent) sz = c.deliver_total - c.sent;
    c.buf.insert(c.buf.end(), c.stream.begin() + c.sent, c.stream.begin() + c.sent + sz);
    c.sent += sz; c.arrived = c.sent; c.fragments++; c.next_frag++;
    g_log.ev("deliver", e.conn, sz, now); stat_add("fragments");
    bool eof = c.sent >= c.deliver_total;
    receiver_step(c, e.conn, eof);
    if (!eof) { uint64_t d = c.next_frag < c.delays.size() ? c.delays[c.next_frag] : 1; q.push(Event{now + d, seq++, e.conn}); }
    if (++steps > 50000000) { fail("C14", "simulation-step-budget", "step budget exceeded"); break; }
  }
  g_run.sim_time = now; stat_max("max_sim_time", now);
  // history oracle (C14): exactly the items of the delivered prefix, once each, in order, ending where the last complete item ends
  uint64_t total_items = 0, with_suffix = 0, failing = 0;
  unsigned L = impl_max_stack();
  for (size_t i = 0; i < conns.size() && !failed() && !g_run.foreign_seen; i++) {
    SConn& c = conns[i];
    total_items += c.received.size(); with_suffix += c.items_with_suffix; failing += c.failing_calls;
    std::vector<MV> exp; uint64_t off = 0; const uint8_t* p = c.stream.data(); uint64_t n = c.deliver_total;
    while (off < n) { if (c.cap_refused && exp.size() == c.received.size()) break;   /* memory did not permit the next one */
      RefLoad r = ref_load(p + off, (size_t)(n - off), L, sa_max_request()); if (r.st != R_ITEM) break; exp.push_back(std::move(r.tree)); off += r.read; }
    std::string where = fmt("conn %zu (%llu bytes delivered in %llu fragment(s))", i, (unsigned long long)n, (unsigned long long)c.fragments);
    if (c.received.size() != exp.size()) { fail("C14", "sequence-item-count", where + fmt(": receiver obtained %zu item(s), the delivered bytes contain %zu", c.received.size(), exp.size())); break; }
    for (size_t k = 0; k < exp.size(); k++) if (!mv_equal(c.received[k], exp[k])) { fail("C14", "sequence-item-differs", where + fmt(": item %zu differs: got %s expected %s", k, mv_str(c.received[k]).c_str(), mv_str(exp[k]).c_str())); break; }
    if (!failed() && c.off != off) fail("C14", "sequence-end-offset", where + fmt(": receiver stopped at offset %llu, expected %llu", (unsigned long long)c.off, (unsigned long long)off));
  }
  stat_add("items_received", total_items); stat_add("items_decoded_with_suffix", with_suffix); stat_add("failing_load_calls", failing);
  if (!g_task_mode) sa_check_integrity();
  if (!failed() && sa_live_count_mine() != 0) fail("C04,C13,C05", "sequence-run-leaves-memory", fmt("%llu block(s) remain after all connections finished", (unsigned long long)sa_live_count()));
  if (g_run.prop == "C14") g_run.nontrivial = total_items >= 2 && with_suffix >= 1;
  else if (g_run.prop == "C05") g_run.nontrivial = failing >= 1;
  else g_run.nontrivial = sa_total_requests() >= 1;
}
