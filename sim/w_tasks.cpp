// W4 — independent tasks on private data under the seeded scheduler (C17). DESIGN.md §3.4, §5.C17.
//  detector 1: the library's writable data segment is write-protected while tasks run (shared-object flavours)
//  detector 2: every task's event-log digest under interleaving equals its solo digest; blocks are released by their owner
//  detector 3: in the tsan flavour the baton is invisible to TSan, so conflicting accesses between tasks are reported
#include "sim.hpp"
#include "sched.hpp"
#include "protect.hpp"

J gen_tasks(const std::string& prop, uint64_t run_seed, const std::string& tier) {
  (void)prop;
  Rng g(run_seed, "gen"), kn(run_seed, "knobs"), sc(run_seed, "sched");
  J plan = J::obj(); J knobs = J::obj();
  knobs.set("be", (uint64_t)BE_DIRECT); knobs.set("rm", kn.below(2)); knobs.set("maxreq", (uint64_t)1 << 20);
  static const uint64_t PRE[] = {1000, 1000, 700, 500, 300, 100, 30};
  knobs.set("preempt", PRE[kn.below(7)]);
  knobs.set("stack", (uint64_t)1 << 20);
  knobs.set("protect", 1);
  knobs.set("locale", kn.below(2));      // half of the runs under a process locale whose radix character is a comma
  knobs.set("shared_sink", kn.below(3) == 0 ? 1 : 0);   // a third of the runs: every task describes into the same FILE*
  knobs.set("fpmode", gen_fpmode(kn));   // the calling thread's floating-point environment: FTZ/DAZ in a quarter of the runs, a directed rounding mode in a quarter
  plan.set("knobs", knobs);
  unsigned nt = (unsigned)(kn.chance(1, 5) ? kn.range(9, 16) : kn.range(2, 8));
  J tasks = J::arr();
  for (unsigned t = 0; t < nt; t++) {
    uint64_t ts = g.next();
    unsigned kind = (unsigned)g.below(10);
    J tp;
    if (kind < 6) { tp = gen_hist(kind < 3 ? "C04" : kind < 5 ? "C03" : "C11", ts, tier); tp.set("w", "hist"); if (tp.at("ops").size() > 60) { J o = J::arr(); for (size_t i = 0; i < 60; i++) o.push(tp.at("ops")[i]); tp.set("ops", o); } }
    else if (kind < 8) { tp = gen_stream("C09", ts, tier); tp.set("w", "stream"); }
    else { tp = gen_seq("C05lite", ts, tier); tp.set("w", "seq"); }   // no chains nested up to the decoder limit inside tasks (they dominate the run time)
    tasks.push(tp);
  }
  plan.set("tasks", tasks);
  plan.set("sched_seed", sc.next() >> 1);
  plan.set("sched", J::arr());
  return plan;
}

static void run_body(const J& tp) {
  const Workload* w = find_workload(tp.gets("w"));
  if (w) w->exec(tp);
}

void exec_tasks(const J& plan) {
  const J& kn = plan.at("knobs"); const J& jt = plan.at("tasks");
  size_t n = jt.size(); if (n == 0) return; if (n > 16) n = 16;
  SaKnobs ak = knobs_alloc(plan); ak.backend = BE_DIRECT;
  std::string prop = g_run.prop;
  bool loc = kn.getu("locale", 0) != 0 && comma_locale(true);
  if (loc) stat_add("runs_under_comma_locale");
  // a stream shared by all tasks (like stdout): the sink discards, and - unlike the private sinks - is no scheduling point, because a task
  // parked inside stdio would hold the stream's lock and every other describing task would wait for it forever
  static cookie_io_functions_t shared_io = {nullptr, [](void*, const char*, size_t n) -> ssize_t { return (ssize_t)n; }, nullptr, nullptr};
  static int shared_cookie = 0;
  if (kn.getu("shared_sink", 0)) { g_shared_describe = fopencookie(&shared_cookie, "w", shared_io); if (g_shared_describe) stat_add("runs_with_shared_describe_stream"); }
  // --- solo: each task alone, on the main thread, before any other thread exists
  std::vector<uint64_t> solo(n);
  g_task_mode = true;
  // hidden mutable global state is hidden mutable global state whether or not a second thread is there to trip over it:
  // the library's own data segment is write-protected from before the first task runs alone (a lazily initialised
  // static table would otherwise be filled during the solo pass and never be written again)
  bool prot = plan.at("knobs").getu("protect", 1) && prot_lib_available();
  prot_set_ctx("task running alone (C17 solo pass)");
  if (prot) prot_lib_statics(true);
  for (size_t i = 0; i < n && !failed(); i++) {
    sa_reset(ak); g_logs[0].reset();
    run_body(jt[i]);
    solo[i] = g_logs[0].digest;
    if (sa_live_count() != 0 && !failed()) fail("C17", "solo-task-leaves-memory", fmt("task %zu alone left %llu block(s)", i + 1, (unsigned long long)sa_live_count()));
  }
  if (failed() || g_run.foreign_seen) { g_task_mode = false; if (prot) prot_lib_statics(false); if (loc) comma_locale(false); if (g_shared_describe) { fclose(g_shared_describe); g_shared_describe = nullptr; } return; }
  // --- interleaved
  sa_reset(ak); for (int li = 0; li <= SA_MAX_TASKS; li++) g_logs[li].reset();
  std::vector<std::function<void()>> bodies;
  for (size_t i = 0; i < n; i++) bodies.push_back([&jt, i]() { sched_point(SP_API); run_body(jt[i]); });
  SchedConfig cfg; cfg.stack_bytes = (size_t)kn.getu("stack", 1 << 20); cfg.preempt_permille = (unsigned)kn.getu("preempt", 500); cfg.rng_seed = plan.getu("sched_seed");
  for (size_t i = 0; i < plan.at("sched").size(); i++) cfg.choices.push_back((uint32_t)plan.at("sched").iu(i));
  prot_set_ctx("interleaved tasks (C17)");
  SchedResult sr = sched_run(cfg, bodies);
  if (prot) prot_lib_statics(false);
  if (loc) comma_locale(false);
  g_task_mode = false;
  if (g_shared_describe) { fclose(g_shared_describe); g_shared_describe = nullptr; }
  uint64_t combined = sr.schedule_hash;
  for (size_t i = 0; i < n && !failed(); i++) {
    combined = hash_comb(combined, g_logs[i + 1].digest);
    if (g_logs[i + 1].digest != solo[i]) fail("C17", "task-result-differs-from-solo-run", fmt("task %zu (%s workload) produced a different event log under interleaving than when run alone (%llu vs %llu events)", i + 1, jt[i].gets("w").c_str(), (unsigned long long)g_logs[i + 1].count, (unsigned long long)0));
  }
  if (sr.budget_exceeded) stat_add("runs_over_scheduling_point_budget");   // a limit of the harness, not a verdict: the rest of the run went unscheduled
  if (!failed() && sa_live_count() != 0) fail("C17", "interleaved-run-leaves-memory", fmt("%llu block(s) remain after all tasks finished", (unsigned long long)sa_live_count()));
  sa_check_integrity();
  g_logs[0].ev("sched", sr.schedule_hash, sr.switches, combined);
  g_run.prop = prop;
  g_run.nontrivial = sr.switches_inside_call >= 1 && !sr.budget_exceeded; g_run.distinct_key = hash_comb(sr.schedule_hash, n) | 1;
  stat_add("tasks", n); stat_add("sched_points_alloc", sr.points[SP_ALLOC]); stat_add("sched_points_free", sr.points[SP_FREE]); stat_add("sched_points_callback", sr.points[SP_CALLBACK]);
  stat_add("sched_points_file", sr.points[SP_FILE]); stat_add("sched_points_api", sr.points[SP_API]); stat_add("switches", sr.switches); stat_add("switches_inside_library_call", sr.switches_inside_call);
  stat_add(prot ? "runs_with_library_statics_write_protected" : "runs_without_statics_protection");
  stat_max("max_tasks", n);
}
