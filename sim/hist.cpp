// W1 executor: see hist.hpp.
#include "hist.hpp"
#include "sched.hpp"
#include <cmath>
#include <cerrno>

// C12 growth clause. "Geometric" = every growth step multiplies the capacity by a constant factor > 1, so n insertions cost
// about log_factor(n) reallocations. The budget is computed for the factor the build is configured with (CBOR_BUFFER_GROWTH);
// an implementation all of whose observed steps (on tables of 64 bytes and more) multiply by at least 1.2 is geometric with
// that smaller factor and is given the budget of the factor it actually shows - any step below 1.2 gets the configured one.
static uint64_t growth_budget(uint64_t n, double min_ratio) {
  double G = impl_growth(); unsigned slack = 2;
  if (min_ratio < G && min_ratio >= 1.2) { G = min_ratio; slack = 6; }
  return (uint64_t)std::ceil(std::log((double)std::max<uint64_t>(n, 1)) / std::log(G) - 1e-9) + slack;
}

static const char* OPN[] = {"new_int", "new_float", "new_ctrl", "new_bstr", "new_tstr", "new_indef_bstr", "new_indef_tstr", "new_def_array", "new_indef_array", "new_def_map", "new_indef_map", "new_tag", "build_tag",
                            "push", "push_many", "set", "replace", "get", "map_add", "add_chunk", "tag_set", "tag_item", "copy", "load", "load_raw", "serialize_alloc", "serialize", "size", "describe",
                            "incref", "decref", "intermediate_decref", "setval", "mark", "getters", "reset_handle", "big"};
const char* op_name(int c) { return (c >= 0 && c < OP__COUNT) ? OPN[c] : "?"; }
HOp hop_from_json(const J& j) { HOp o; o.code = (int)j.iu(0); o.a = j.iu(1); o.b = j.iu(2); o.c = j.iu(3); o.d = j.iu(4); o.fk = (int)j.iu(5); o.fkk = j.iu(6); return o; }
J hop_to_json(const HOp& o) { J a = J::arr(); a.push((uint64_t)o.code); a.push(o.a); a.push(o.b); a.push(o.c); a.push(o.d); a.push((uint64_t)o.fk); a.push(o.fkk); return a; }

enum { M_INT = 1, M_FLOAT = 2, M_CTRL = 4, M_BSTR = 8, M_TSTR = 16, M_ARRAY = 32, M_MAP = 64, M_TAG = 128, M_ANY = 255 };
static unsigned kind_mask(MKind k) { switch (k) { case MK_UINT: case MK_NEGINT: return M_INT; case MK_FLOAT: return M_FLOAT; case MK_CTRL: return M_CTRL; case MK_BSTR: return M_BSTR; case MK_TSTR: return M_TSTR; case MK_ARRAY: return M_ARRAY; case MK_MAP: return M_MAP; default: return M_TAG; } }
static const uint64_t NOBLOCK = ~0ull;
static const int POOL_MAX = 32, NODES_MAX = 400;
static const uint64_t TREE_BYTES_MAX = (uint64_t)4 << 20;

// --- describe sink: every write is a scheduling point (W4) and lands nowhere
// The stream is the client's: it may stop accepting bytes at any moment (disk full, reader gone). fail_after = ~0: never.
struct Sink { uint64_t h = 1, total = 0, fail_after = ~0ull; uint64_t write_errors = 0; };
static ssize_t sink_write(void* c, const char* buf, size_t n) {
  sched_point(SP_FILE); Sink* s = (Sink*)c;
  if (s->total >= s->fail_after) { s->write_errors++; errno = ENOSPC; return 0; }      // 0 from a cookie write function = error
  size_t take = n; if (s->fail_after - s->total < take) take = (size_t)(s->fail_after - s->total);   // short write first, the error on the retry
  s->h = hash_bytes(buf, take, s->h); s->total += take; return (ssize_t)take;
}
// bufmode: 0 = stdio's default buffering, 1 = unbuffered, 2.. = fully buffered with 16 << (bufmode - 2) bytes
static uint64_t describe_to_sink(cbor_item_t* it, uint64_t fail_after = ~0ull, unsigned bufmode = 0, uint64_t* errors = nullptr) {
  if (g_shared_describe && g_task_mode && fail_after == ~0ull) { cbor_describe(it, g_shared_describe); if (errors) *errors = 0; return 7; }   // one stream for all tasks: stdio's own locking is all that orders them
  Sink sk; sk.fail_after = fail_after; cookie_io_functions_t io = {nullptr, sink_write, nullptr, nullptr};
  FILE* f = fopencookie(&sk, "w", io); if (!f) return 0;
  static thread_local char vbuf[4096];
  if (bufmode == 1) setvbuf(f, nullptr, _IONBF, 0); else if (bufmode >= 2) setvbuf(f, vbuf, _IOFBF, (size_t)16 << std::min(bufmode - 2, 8u));
  cbor_describe(it, f); fclose(f);
  if (errors) *errors = sk.write_errors;
  return sk.h;
}

int Hist::alive_nodes() const { int n = 0; for (auto& x : nodes) if (x.alive) n++; return n; }
int Hist::new_node(MKind k) { HNode n; n.id = (int)nodes.size(); n.kind = k; n.alive = true; nodes.push_back(n); return n.id; }

int Hist::pick(unsigned mask, uint64_t sel, bool need_ser) const {
  std::vector<int> c;
  for (size_t i = 0; i < pool.size(); i++) { const HNode& n = nodes[pool[i]]; if ((kind_mask(n.kind) & mask) && (!need_ser || serialisable(n.id))) c.push_back((int)i); }
  if (c.empty()) return -1;
  return sel == SEL_LAST ? c.back() : c[sel % c.size()];
}
bool Hist::reaches(int from, int target) const {
  if (from == target) return true;
  int prev = -1;
  for (int k : nodes[from].kids) { if (k == prev) continue; prev = k; if (reaches(k, target)) return true; }
  return false;
}
bool Hist::serialisable(int id) const {
  const HNode& n = nodes[id];
  if (n.kind == MK_TAG && n.kids.empty()) return false;
  int prev = -1;
  for (int k : n.kids) { if (k == prev) continue; prev = k; if (!serialisable(k)) return false; }
  return true;
}
void Hist::measure(int id, uint64_t& bytes, uint64_t& cnt) const {
  const uint64_t CAP = (uint64_t)1 << 40;
  const HNode& n = nodes[id];
  bytes += 9 + n.bytes.size(); cnt += 1;
  size_t i = 0;
  while (i < n.kids.size() && bytes < CAP) {
    size_t j = i; while (j < n.kids.size() && n.kids[j] == n.kids[i]) j++;
    uint64_t b = 0, c = 0; measure(n.kids[i], b, c);
    bytes += b * (j - i); cnt += c * (j - i); i = j;
  }
  if (bytes > CAP) bytes = CAP;
}
uint64_t Hist::occurrences(int target) const {
  // reverse edges with multiplicity (runs of equal children are counted, not walked one by one)
  std::map<int, std::vector<std::pair<int, uint64_t>>> parents;
  for (auto& n : nodes) if (n.alive) { size_t i = 0; while (i < n.kids.size()) { size_t j = i; while (j < n.kids.size() && n.kids[j] == n.kids[i]) j++; parents[n.kids[i]].emplace_back(n.id, (uint64_t)(j - i)); i = j; } }
  const uint64_t CAP = (uint64_t)1 << 50;
  std::map<int, uint64_t> memo;
  std::function<uint64_t(int, int)> occ = [&](int id, int depth) -> uint64_t {
    auto it = memo.find(id); if (it != memo.end()) return it->second;
    uint64_t v = nodes[id].ext > 0 ? 1 : 0;
    if (depth < 5000) for (auto& pm : parents[id]) { uint64_t o = occ(pm.first, depth + 1); v = (o > CAP / (pm.second ? pm.second : 1)) ? CAP : std::min(CAP, v + o * pm.second); }
    memo[id] = v; return v;
  };
  return occ(target, 0);
}
MV Hist::to_value(int id) const {
  const HNode& n = nodes[id]; MV v; v.kind = n.kind; v.width = n.width; v.val = n.val; v.definite = n.definite; v.bytes = n.bytes;
  v.kids.reserve(n.kids.size());
  if (n.kids.size() > 8 && std::all_of(n.kids.begin(), n.kids.end(), [&](int k) { return k == n.kids[0]; })) { MV c = to_value(n.kids[0]); v.kids.assign(n.kids.size(), c); }
  else for (int k : n.kids) v.kids.push_back(to_value(k));
  return v;
}

void Hist::predict_release(int id, std::vector<int>& dying, std::map<int, int64_t>& dec) const {
  int64_t d = ++dec[id];
  if (count(id) - d == 0) {
    dying.push_back(id);
    for (int k : nodes[id].kids) predict_release(k, dying, dec);
  }
}
void Hist::apply_release(const std::vector<int>& dying) {
  for (int d : dying) {
    HNode& n = nodes[d];
    for (int k : n.kids) nodes[k].in_edges--;
    n.kids.clear(); n.alive = false; n.impl = nullptr; n.bytes.clear();
    copy_roots.erase(d); copy_sources.erase(d);
  }
}

static uint64_t block_id_of(const void* p) { const BlockInfo* b = sa_find(p); return b ? b->id : NOBLOCK; }
static uint64_t table_block(const HNode& n) {
  if (!n.impl) return NOBLOCK;
  const void* t = nullptr;
  if (n.kind == MK_ARRAY || n.kind == MK_MAP) t = n.impl->data;
  else if ((n.kind == MK_BSTR || n.kind == MK_TSTR) && !n.definite && n.impl->data) t = ((struct cbor_indefinite_string_data*)n.impl->data)->chunks;
  return t ? block_id_of(t) : NOBLOCK;
}

std::vector<uint64_t> Hist::owned_ids(const HNode& n, const char* props) {
  std::vector<const void*> ptrs; impl_owned_blocks(n.impl, ptrs);
  std::vector<uint64_t> ids;
  for (const void* p : ptrs) {
    uint64_t id = block_id_of(p);
    if (id == NOBLOCK) { const BlockInfo* in = sa_find_containing(p); if (in && !ids.empty() && in->id == ids[0]) continue; }   // storage carved out of the item's own block (combined allocation) is fine
    if (id == NOBLOCK) fail(props, "item-storage-not-an-allocator-block", fmt("node #%d (%s) uses storage that is not a live block of the installed allocator", n.id, mv_str(to_value(n.id), 60).c_str())); else ids.push_back(id); }
  return ids;
}

bool Hist::verify(const HNode& n, const char* props, const std::string& ctx) {
  if (light) return true;
  const cbor_item_t* it = n.impl;
  auto bad = [&](const std::string& m) { fail(props, "model-divergence", ctx + fmt(": node #%d: ", n.id) + m); return false; };
  if (!it) return bad("no implementation item");
  switch (n.kind) {
    case MK_UINT: case MK_NEGINT:
      if (cbor_typeof(it) != (n.kind == MK_UINT ? CBOR_TYPE_UINT : CBOR_TYPE_NEGINT)) return bad("integer sign/type differs");
      if (int_width_bytes(cbor_int_get_width(it)) != n.width) return bad("integer width differs");
      if (cbor_get_int(it) != n.val) return bad(fmt("integer value %llu, model %llu", (unsigned long long)cbor_get_int(it), (unsigned long long)n.val));
      return true;
    case MK_FLOAT: case MK_CTRL: case MK_TAG: {
      if (n.kind == MK_TAG) {
        if (!cbor_isa_tag(it)) return bad("not a tag");
        if (cbor_tag_value(it) != n.val) return bad("tag number differs");
        const cbor_item_t* c = it->metadata.tag_metadata.tagged_item;
        if (n.kids.empty() ? c != nullptr : c != nodes[n.kids[0]].impl) return bad("tagged item pointer differs from model");
        return true;
      }
      MV v; v.kind = n.kind; v.width = n.width; v.val = n.val; std::string why;
      if (!impl_equals(it, v, why)) return bad(why);
      return true;
    }
    case MK_BSTR: case MK_TSTR: {
      bool bs = n.kind == MK_BSTR;
      if (cbor_typeof(it) != (bs ? CBOR_TYPE_BYTESTRING : CBOR_TYPE_STRING)) return bad("string type differs");
      bool def = bs ? cbor_bytestring_is_definite(it) : cbor_string_is_definite(it);
      if (def != n.definite) return bad("definite/indefinite differs");
      if (def) {
        size_t len = bs ? cbor_bytestring_length(it) : cbor_string_length(it);
        const unsigned char* h = bs ? cbor_bytestring_handle(it) : cbor_string_handle(it);
        if (len != n.bytes.size()) return bad(fmt("string length %zu, model %zu", len, n.bytes.size()));
        if (len && memcmp(h, n.bytes.data(), len) != 0) return bad("string bytes differ");
        return true;
      }
      size_t cc = bs ? cbor_bytestring_chunk_count(it) : cbor_string_chunk_count(it);
      cbor_item_t** ch = bs ? cbor_bytestring_chunks_handle(it) : cbor_string_chunks_handle(it);
      if (cc != n.kids.size()) return bad(fmt("chunk count %zu, model %zu", cc, n.kids.size()));
      if (cc && !ch) return bad("chunk table pointer is NULL although the string has chunks");
      for (size_t i = 0; i < cc; i++) if (ch[i] != nodes[n.kids[i]].impl) return bad(fmt("chunk %zu is not the item the model holds", i));
      return true;
    }
    case MK_ARRAY: {
      if (!cbor_isa_array(it)) return bad("not an array");
      if (cbor_array_is_definite(it) != n.definite) return bad("definite/indefinite differs");
      if (cbor_array_size(it) != n.kids.size()) return bad(fmt("array size %zu, model %zu", cbor_array_size(it), n.kids.size()));
      if (cbor_array_size(it) > cbor_array_allocated(it)) return bad("size exceeds allocated capacity");
      if (n.definite && cbor_array_allocated(it) != n.capacity) return bad(fmt("definite array capacity %zu, model %llu", cbor_array_allocated(it), (unsigned long long)n.capacity));
      cbor_item_t** h = cbor_array_handle(it);
      if (!h && !n.kids.empty()) return bad("element storage pointer is NULL although the array has elements");
      for (size_t i = 0; i < n.kids.size(); i++) if (h[i] != nodes[n.kids[i]].impl) return bad(fmt("element %zu is not the item the model holds", i));
      return true;
    }
    case MK_MAP: {
      if (!cbor_isa_map(it)) return bad("not a map");
      if (cbor_map_is_definite(it) != n.definite) return bad("definite/indefinite differs");
      if (cbor_map_size(it) * 2 != n.kids.size()) return bad(fmt("map size %zu, model %zu", cbor_map_size(it), n.kids.size() / 2));
      if (cbor_map_size(it) > cbor_map_allocated(it)) return bad("size exceeds allocated capacity");
      if (n.definite && cbor_map_allocated(it) != n.capacity) return bad("definite map capacity differs");
      struct cbor_pair* h = cbor_map_handle(it);
      if (!h && !n.kids.empty()) return bad("pair storage pointer is NULL although the map has pairs");
      for (size_t i = 0; i < n.kids.size() / 2; i++) if (h[i].key != nodes[n.kids[2 * i]].impl || h[i].value != nodes[n.kids[2 * i + 1]].impl) return bad(fmt("pair %zu is not what the model holds", i));
      return true;
    }
  }
  return true;
}

void Hist::check_refcounts(const char* props, const std::string& ctx) {
  if (light) return;
  for (auto& n : nodes) if (n.alive && n.impl) {
    size_t rc = cbor_refcount(n.impl);
    if (count(n.id) >= 2) seen_shared = true;
    if ((int64_t)rc != count(n.id)) { fail(props, "refcount-differs-from-ownership-rules", ctx + fmt(": node #%d (%s) has refcount %zu; the rules say %lld (%lld client + %lld container references)", n.id, mv_str(to_value(n.id), 50).c_str(), rc, (long long)count(n.id), (long long)n.ext, (long long)n.in_edges)); return; }
  }
}
void Hist::verify_all(const char* props, const std::string& ctx, int big_touched) {
  for (auto& n : nodes) if (n.alive) { if (n.kids.size() > 600 && n.id != big_touched) continue; if (!verify(n, props, ctx)) return; }
}

int Hist::adopt_tree(cbor_item_t* it, const MV& shape, const char* props, std::set<const cbor_item_t*>& seen, const std::string& path) {
  if (!it) { fail(props, "built-tree-has-null-node", path + ": NULL node in a tree the library built"); return -1; }
  { const BlockInfo* b = sa_find(it); if (!b || b->size < sizeof(cbor_item_t)) { fail(props, "built-tree-has-wild-pointer", path + ": node pointer is not a live item block of the installed allocator"); return -1; } }
  if (seen.count(it)) { fail(props, "built-tree-shares-node", path + ": node occurs twice inside a freshly built tree"); return -1; }
  for (auto& n : nodes) if (n.alive && n.impl == it) { fail(props, "built-tree-aliases-existing-item", path + fmt(": node is the existing item #%d", n.id)); return -1; }
  seen.insert(it);
  int id = new_node(shape.kind);
  { HNode& n = nodes[id]; n.width = shape.width; n.val = shape.val; n.definite = shape.definite; n.bytes = shape.bytes; n.impl = it; n.capacity = (shape.kind == MK_MAP ? shape.kids.size() / 2 : shape.kids.size()); }
  // children straight from the struct layout (no getter is called on a tree the harness merely enumerates)
  std::vector<cbor_item_t*> ch; raw_children(it, ch);
  if (ch.size() != shape.kids.size()) { fail(props, "built-tree-shape", path + fmt(": %zu children, expected %zu", ch.size(), shape.kids.size())); return id; }
  for (size_t i = 0; i < ch.size() && !failed() && !g_run.foreign_seen; i++) {
    int k = adopt_tree(ch[i], shape.kids[i], props, seen, path + fmt("/%zu", i));
    if (k >= 0) { nodes[id].kids.push_back(k); nodes[k].in_edges++; }
  }
  nodes[id].inserts = 0;
  return id;
}

// ------------------------------------------------------------------ one op
struct OpScope {
  Hist& h; std::string ctx; std::string props; OpWindow w; bool refused = false;
  std::vector<BlockImage> image;
  std::set<uint64_t> expect_freed, expect_born;
  OpScope(Hist& hh, const HOp& op, const char* p) : h(hh), props(p) { ctx = fmt("op %s(%llu,%llu,%llu,%llu)", op_name(op.code), (unsigned long long)op.a, (unsigned long long)op.b, (unsigned long long)op.c, (unsigned long long)op.d); }
  bool snapped = false;
  void snapshot(const HOp& op) { static const bool nofill = getenv("SIM_NOFILL") != nullptr; if (!snapped && h.image_check && op.fk != F_NONE && !nofill) { image = sa_snapshot(); snapped = true; } }
  void begin(const HOp& op) {
    FaultSpec f; f.kind = op.fk; f.k = op.fkk; f.seed = op.a * 31 + op.b;
    if (f.kind == F_QUOTA) f.k = sa_live_bytes() + op.fkk % 2048;      // budget relative to what is live when the op starts
    snapshot(op);
    sa_begin(f);
  }
  void end() { w = sa_end(); refused = w.refused_injected > 0; if (refused) { props += ",C06"; h.fired_faults++; stat_add("ops_with_fired_fault"); } }
  void expect_dying(const std::vector<int>& dying) { for (int d : dying) for (uint64_t id : h.owned_ids(h.nodes[d], props.c_str())) expect_freed.insert(id); }
  void born_nodes(const std::vector<int>& ids, const std::set<uint64_t>& client_given = {}) { for (int i : ids) if (i >= 0 && h.nodes[i].impl) for (uint64_t b : h.owned_ids(h.nodes[i], props.c_str())) if (!client_given.count(b)) expect_born.insert(b); }
  void table_change(uint64_t before, uint64_t after) { if (before != after) { if (after != NOBLOCK) expect_born.insert(after); if (before != NOBLOCK) expect_freed.insert(before); } }
  // block accounting: what was born and survived, what pre-existing blocks were released
  void account() {
    std::set<uint64_t> alloc(w.allocated.begin(), w.allocated.end()), born_live, freed_old;
    for (uint64_t id : w.allocated) { const BlockInfo* b = sa_by_id(id); if (b && b->live) born_live.insert(id); }
    for (uint64_t id : w.freed) if (!alloc.count(id)) freed_old.insert(id);
    for (uint64_t id : born_live) if (!expect_born.count(id)) { fail((props + ",C04,C13").c_str(), "op-leaks-block", ctx + fmt(": block #%llu (%zu bytes) allocated during the call is still live but belongs to nothing the call produced", (unsigned long long)id, sa_by_id(id)->size)); return; }
    for (uint64_t id : expect_born) if (!born_live.count(id)) { fail(props.c_str(), "new-item-uses-older-block", ctx + fmt(": block #%llu of a freshly produced item was not allocated by this call (shared with something older)", (unsigned long long)id)); return; }
    for (uint64_t id : freed_old) if (!expect_freed.count(id)) { fail((props + ",C04").c_str(), "released-block-still-owned", ctx + fmt(": block #%llu was released although the ownership rules say its item is still referenced", (unsigned long long)id)); return; }
    for (uint64_t id : expect_freed) if (!freed_old.count(id)) { fail((props + ",C04,C13").c_str(), "dead-item-block-not-released", ctx + fmt(": block #%llu belongs to an item whose last reference went away, but it was not released", (unsigned long long)id)); return; }
  }
  // after a refused allocation: the call must have changed nothing
  void unchanged_after_refusal() {
    if (snapped) {
      std::vector<BlockImage> now = sa_snapshot();
      if (now.size() != image.size()) { fail("C06", "failed-op-changes-live-set", ctx + fmt(": %zu live blocks before the refused call, %zu after", image.size(), now.size())); return; }
      for (size_t i = 0; i < now.size(); i++) {
        if (now[i].id != image[i].id || now[i].bytes.size() != image[i].bytes.size()) { fail("C06", "failed-op-changes-live-set", ctx + ": set of live blocks changed across the refused call"); return; }
        if (now[i].bytes != image[i].bytes) {
          size_t off = 0; while (now[i].bytes[off] == image[i].bytes[off]) off++;
          // padding inside cbor_item_t (after `type`) carries no value
          if (now[i].bytes.size() >= sizeof(cbor_item_t) && off >= offsetof(cbor_item_t, type) + sizeof(cbor_type) && off < offsetof(cbor_item_t, data)) continue;
          fail("C06", "failed-op-modifies-memory", ctx + fmt(": block #%llu differs at byte %zu after the refused call (arguments must be left exactly as they were)", (unsigned long long)now[i].id, off)); return;
        }
      }
    }
  }
};

static void payload_for(uint64_t seed, uint64_t len, int flavour, std::vector<uint8_t>& out) { gen_payload(seed, (size_t)len, flavour, out); }

static MV raw_shape(const HOp& op) {
  Rng r(op.c, "raw");
  if (op.d & 8) {
    unsigned lim = impl_max_stack() > 1 ? impl_max_stack() - 1 : 1; unsigned depth = (unsigned)(20 + (op.c >> 8) % 230);
    if ((op.c >> 20) % 24 == 0 && lim <= 4096) depth = lim - (unsigned)((op.c >> 26) % 3 < lim ? (op.c >> 26) % 3 : 0);   // now and then right up to the decoder's limit
    if (depth > lim) depth = lim;
    return deep_mv(r, depth);
  }
  if (op.d & 4) {
    // strings whose length needs the 4-byte head and crosses 64 KiB (size-dependent paths in the decoder's string handling)
    MV a; a.kind = MK_ARRAY; a.definite = true;
    MV t; t.kind = MK_TSTR; t.definite = true; gen_payload(op.c, (size_t)(65530 + op.c % 5000), 2, t.bytes); a.kids.push_back(t);
    MV it; it.kind = MK_TSTR; it.definite = false; MV ch; ch.kind = MK_TSTR; ch.definite = true; gen_payload(op.c + 1, (size_t)(65537 + (op.c >> 16) % 3000), (op.c & 1) ? 2 : 3, ch.bytes); it.kids.push_back(ch); a.kids.push_back(it);
    MV b; b.kind = MK_BSTR; b.definite = true; gen_payload(op.c + 2, (size_t)(65536 + (op.c >> 8) % 9), 0, b.bytes); a.kids.push_back(b);
    return a;
  }
  if (op.d & 16) {
    // the decoder's output as the starting state of a mutation history: an indefinite container (the kind that can still grow)
    // holding a boundary number of one-byte members or small chunks; the generator follows it with insertions into it
    static const unsigned NS[] = {0, 1, 2, 3, 4, 7, 8, 9, 15, 16, 17, 23, 24, 31, 32, 33, 56, 63, 64, 65, 120, 128, 129, 257};
    unsigned n = NS[(op.c >> 8) % (sizeof NS / sizeof NS[0])]; unsigned kind = (unsigned)((op.c >> 3) % 4);
    MV v; v.definite = false; v.kind = kind == 0 ? MK_ARRAY : kind == 1 ? MK_MAP : kind == 2 ? MK_BSTR : MK_TSTR;
    for (unsigned i = 0; i < (kind == 1 ? 2 * n : n); i++) {
      MV c;
      if (kind >= 2) { c.kind = v.kind; c.definite = true; gen_payload(op.c + i, (size_t)((op.c >> 16) + i) % 5, kind == 2 ? 0 : 1, c.bytes); }
      else { c.kind = MK_UINT; c.width = 1; c.val = i % 24; }
      v.kids.push_back(std::move(c));
    }
    return v;
  }
  GenProfile gp; gp.max_depth = 3; gp.max_kids = 4; return gen_mv(r, gp);
}

uint64_t Hist::dry_requests(const HOp& op) {
  // Only for ops that create something new without touching existing state: run once fault-free, undo, count.
  switch (op.code) {
    case OP_COPY: { int i = pick(M_ANY, op.a, true); if (i < 0 || !small_enough(pool[i], TREE_BYTES_MAX, 3000)) return ~0ull; sa_begin(FaultSpec()); cbor_item_t* c = cbor_copy(nodes[pool[i]].impl); if (c) cbor_decref(&c); return sa_end().requests; }
    case OP_SERIALIZE_ALLOC: { int i = pick(M_ANY, op.a, true); if (i < 0 || !small_enough(pool[i], (uint64_t)1 << 18, 4000)) return ~0ull; unsigned char* b = nullptr; size_t s = 0; sa_begin(FaultSpec()); cbor_serialize_alloc(nodes[pool[i]].impl, &b, &s); uint64_t r = sa_end().requests; if (b) sa_client_free(b); return r; }
    case OP_LOAD: { int i = pick(M_ANY, op.a, true); if (i < 0 || !small_enough(pool[i], TREE_BYTES_MAX, 3000)) return ~0ull; std::vector<uint8_t> by = ref_encode(to_value(pool[i])); struct cbor_load_result res; sa_begin(FaultSpec()); cbor_item_t* c = cbor_load(by.data(), by.size(), &res); if (c) cbor_decref(&c); return sa_end().requests; }
    case OP_LOAD_RAW: { MV v = raw_shape(op); std::vector<uint8_t> by = ref_encode(v); struct cbor_load_result res; sa_begin(FaultSpec()); cbor_item_t* c = cbor_load(by.data(), by.size(), &res); if (c) cbor_decref(&c); return sa_end().requests; }
    default: return ~0ull;
  }
}

OpResult Hist::run_op(const HOp& op0) {
  OpResult R; HOp op = op0;
  if (op.code < 0 || op.code >= OP__COUNT) return R;
  bool creating = op.code <= OP_BUILD_TAG || op.code == OP_COPY || op.code == OP_LOAD || op.code == OP_LOAD_RAW || op.code == OP_GET || op.code == OP_TAG_ITEM || op.code == OP_INCREF;
  if (creating && ((int)pool.size() >= POOL_MAX || alive_nodes() >= NODES_MAX)) return R;
  // fault index modulo the number of requests the op really makes (ops that can be dry-run); growth ops make at most one request
  if ((op.fk == F_NTH || op.fk == F_FROM) && !exact_fault) {
    uint64_t N = dry_requests(op);
    if (N != ~0ull) { if (N == 0) op.fk = F_NONE; else op.fkk %= N; }
    else if (op.code >= OP_PUSH && op.code <= OP_TAG_SET) op.fkk = 0;
    else op.fkk %= 3;
  }
  // repeated insertion (growth clause for maps and chunked strings): the same op `times` times, each with the full oracle
  if ((op.code == OP_MAP_ADD || op.code == OP_ADD_CHUNK) && (op.d >> 4) != 0) {
    uint64_t times = 1 + (op.d >> 4) % 4000; HOp one = op; one.d &= 15; OpResult last;
    if (times > 16) {   // repeated growth of a container that other containers already refer to multiplies through them
      bool shared = false;
      for (size_t i = 0; i < pool.size() && !shared; i++) { const HNode& n = nodes[pool[i]]; bool cand = op.code == OP_MAP_ADD ? n.kind == MK_MAP : ((n.kind == MK_BSTR || n.kind == MK_TSTR) && !n.definite); if (cand && occurrences(n.id) > 4) shared = true; }
      if (shared) times = 16;
    }
    for (uint64_t t = 0; t < times && !failed() && !g_run.foreign_seen; t++) { last = run_op(one); if (!last.executed || last.reported_failure) break; }
    return last;
  }
  g_log.ev("op", (uint64_t)op.code, op.a, op.b);

  auto finish_new = [&](OpScope& S, cbor_item_t* item, const std::function<int()>& make_node, const std::set<uint64_t>& client_given = {}) {
    // common tail of every constructor: NULL iff a refusal happened; nothing leaked on failure
    S.end(); R.executed = true; R.requests = S.w.requests; R.refused = S.refused;
    if (S.w.refused > 0) {
      R.reported_failure = item == nullptr;
      if (item != nullptr) fail(S.props.c_str(), "constructor-succeeds-despite-refused-allocation", S.ctx + ": an allocation was refused but an item was returned");
      S.account(); S.unchanged_after_refusal();
      return;
    }
    if (item == nullptr) { fail(S.props.c_str(), "constructor-returns-null-without-refusal", S.ctx + ": NULL although no allocation was refused"); return; }
    int id = make_node();
    nodes[id].impl = item; nodes[id].ext = 1; pool.push_back(id);
    S.born_nodes({id}, client_given); S.account();
  };

  switch (op.code) {
    // ------------------------------------------------------------ scalars
    case OP_NEW_INT: {
      OpScope S(*this, op, "C04,C03,C13"); int wsel = (int)(op.a % 4); bool neg = op.b & 1; uint64_t v = op.c; int wb = 1 << wsel; if (wb < 8) v &= ((1ull << (8 * wb)) - 1);
      cbor_item_t* it = nullptr; S.begin(op);
      if (op.d & 1) {
        it = wsel == 0 ? cbor_new_int8() : wsel == 1 ? cbor_new_int16() : wsel == 2 ? cbor_new_int32() : cbor_new_int64();
        if (it) { switch (wsel) { case 0: cbor_set_uint8(it, (uint8_t)v); break; case 1: cbor_set_uint16(it, (uint16_t)v); break; case 2: cbor_set_uint32(it, (uint32_t)v); break; default: cbor_set_uint64(it, v); } if (neg) cbor_mark_negint(it); else cbor_mark_uint(it); }
      } else if (!neg) it = wsel == 0 ? cbor_build_uint8((uint8_t)v) : wsel == 1 ? cbor_build_uint16((uint16_t)v) : wsel == 2 ? cbor_build_uint32((uint32_t)v) : cbor_build_uint64(v);
      else it = wsel == 0 ? cbor_build_negint8((uint8_t)v) : wsel == 1 ? cbor_build_negint16((uint16_t)v) : wsel == 2 ? cbor_build_negint32((uint32_t)v) : cbor_build_negint64(v);
      finish_new(S, it, [&]() { int id = new_node(neg ? MK_NEGINT : MK_UINT); nodes[id].width = wb; nodes[id].val = v; return id; });
      break;
    }
    case OP_NEW_FLOAT: {
      OpScope S(*this, op, "C04,C03,C13"); int wsel = (int)(op.a % 3); uint64_t bits = op.c; cbor_item_t* it = nullptr; S.begin(op);
      if (wsel == 0) { bits &= 0xffff; float f = u2f(half_bits_to_float_bits((uint16_t)bits)); if (op.d & 1) { it = cbor_new_float2(); if (it) cbor_set_float2(it, f); } else it = cbor_build_float2(f); }
      else if (wsel == 1) { bits &= 0xffffffffu; float f = u2f((uint32_t)bits); if (op.d & 1) { it = cbor_new_float4(); if (it) cbor_set_float4(it, f); } else it = cbor_build_float4(f); }
      else { double dd = u2d(bits); if (op.d & 1) { it = cbor_new_float8(); if (it) cbor_set_float8(it, dd); } else it = cbor_build_float8(dd); }
      finish_new(S, it, [&]() { int id = new_node(MK_FLOAT); nodes[id].width = 2 << wsel; nodes[id].val = bits; return id; });
      break;
    }
    case OP_NEW_CTRL: {
      OpScope S(*this, op, "C04,C03,C13"); unsigned sel = (unsigned)(op.a % 5); uint64_t v = sel == 0 ? 20 : sel == 1 ? 21 : sel == 2 ? 22 : sel == 3 ? 23 : 20 + op.c % 4;
      cbor_item_t* it = nullptr; S.begin(op);
      if (sel <= 1) it = cbor_build_bool(sel == 1); else if (sel == 2) it = cbor_new_null(); else if (sel == 3) it = cbor_new_undef(); else if (op.d & 1) { it = cbor_new_ctrl(); if (it) cbor_set_ctrl(it, (uint8_t)v); } else it = cbor_build_ctrl((uint8_t)v);
      finish_new(S, it, [&]() { int id = new_node(MK_CTRL); nodes[id].val = v; return id; });
      break;
    }
    case OP_NEW_BSTR: case OP_NEW_TSTR: {
      bool bs = op.code == OP_NEW_BSTR; OpScope S(*this, op, "C04,C03,C13");
      std::vector<uint8_t> pl; payload_for(op.b, op.a % 70001, bs ? 0 : (int)(1 + op.d / 4 % 3), pl);
      cbor_item_t* it = nullptr; std::set<uint64_t> given; unsigned variant = (unsigned)(op.d % 4);
      bool has_nul = std::find(pl.begin(), pl.end(), 0) != pl.end();
      if (variant == 1) {
        // client-allocated handle (with the installed allocator, as the documentation requires), attached with set_handle
        S.snapshot(op);
        unsigned char* hbuf = (unsigned char*)sa_client_malloc(pl.size()); if (!pl.empty()) memcpy(hbuf, pl.data(), pl.size());
        S.begin(op);
        it = bs ? cbor_new_definite_bytestring() : cbor_new_definite_string();
        if (it) { if (bs) cbor_bytestring_set_handle(it, hbuf, pl.size()); else cbor_string_set_handle(it, hbuf, pl.size()); given.insert(block_id_of(hbuf)); }
        else sa_client_free(hbuf);
      } else {
        static const unsigned char nothing = 0; const unsigned char* src = pl.empty() ? &nothing : pl.data();
        S.begin(op);
        if (bs) it = cbor_build_bytestring(src, pl.size());
        else if (variant == 2 && !has_nul) { std::string z((const char*)pl.data(), pl.size()); it = cbor_build_string(z.c_str()); }
        else it = cbor_build_stringn((const char*)src, pl.size());
      }
      finish_new(S, it, [&]() { int id = new_node(bs ? MK_BSTR : MK_TSTR); nodes[id].definite = true; nodes[id].bytes = pl; return id; }, given);
      break;
    }
    case OP_NEW_INDEF_BSTR: case OP_NEW_INDEF_TSTR: {
      bool bs = op.code == OP_NEW_INDEF_BSTR; OpScope S(*this, op, "C04,C12,C13"); S.begin(op);
      cbor_item_t* it = bs ? cbor_new_indefinite_bytestring() : cbor_new_indefinite_string();
      finish_new(S, it, [&]() { int id = new_node(bs ? MK_BSTR : MK_TSTR); nodes[id].definite = false; return id; });
      break;
    }
    case OP_NEW_DEF_ARRAY: case OP_NEW_DEF_MAP: case OP_NEW_INDEF_ARRAY: case OP_NEW_INDEF_MAP: {
      bool map = op.code == OP_NEW_DEF_MAP || op.code == OP_NEW_INDEF_MAP, def = op.code == OP_NEW_DEF_ARRAY || op.code == OP_NEW_DEF_MAP;
      uint64_t cap = op.a % 70001; OpScope S(*this, op, "C04,C12,C13"); S.begin(op);
      cbor_item_t* it = def ? (map ? cbor_new_definite_map(cap) : cbor_new_definite_array(cap)) : (map ? cbor_new_indefinite_map() : cbor_new_indefinite_array());
      finish_new(S, it, [&]() { int id = new_node(map ? MK_MAP : MK_ARRAY); nodes[id].definite = def; nodes[id].capacity = def ? cap : 0; return id; });
      break;
    }
    case OP_NEW_TAG: {
      OpScope S(*this, op, "C04,C13"); S.begin(op); cbor_item_t* it = cbor_new_tag(op.c);
      finish_new(S, it, [&]() { int id = new_node(MK_TAG); nodes[id].val = op.c; return id; });
      break;
    }
    case OP_BUILD_TAG: {
      int xi = pick(M_ANY, op.a); if (xi < 0) break; int x = pool[xi];
      bool move = (op.d & 1) != 0;             // cbor_build_tag(v, cbor_move(x)); on failure the documentation makes the client restore the count
      OpScope S(*this, op, "C04,C13"); S.begin(op); cbor_item_t* it = cbor_build_tag(op.c, move ? cbor_move(nodes[x].impl) : nodes[x].impl);
      if (move && !it) (void)cbor_incref(nodes[x].impl);
      finish_new(S, it, [&]() { int id = new_node(MK_TAG); nodes[id].val = op.c; add_edge(id, x); return id; });
      if (move && it && !failed()) { nodes[x].ext--; pool.erase(pool.begin() + xi); }
      break;
    }
    // ------------------------------------------------------------ containers
    case OP_PUSH: case OP_PUSH_MANY: case OP_SET: case OP_REPLACE: {
      int ai = pick(M_ARRAY, op.a), xi = pick(M_ANY, op.b); if (ai < 0 || xi < 0) break;
      int arr = pool[ai], x = pool[xi]; if (reaches(x, arr)) break;      // would create a cycle
      { uint64_t bx = 0, nx = 0, ba = 0, na = 0; measure(x, bx, nx); measure(arr, ba, na); uint64_t times = op.code == OP_PUSH_MANY ? 1 + op.c % 70000 : 1;
        if (bx * times + ba > TREE_BYTES_MAX || nx * times + na > 200000) break;
        if (times > 8 || bx > 4096) {       // growth of a container multiplies through everything that already refers to it, directly or not
          uint64_t occ = occurrences(arr);
          if (occ > 1 && (occ > ((uint64_t)1 << 30) || occ * (bx * times + ba) > 4 * TREE_BYTES_MAX)) { if (op.code == OP_PUSH_MANY && occ * (bx * 16 + ba) <= 4 * TREE_BYTES_MAX) op.c = 15; else break; }
        } }
      HNode& A = nodes[arr]; size_t size = A.kids.size();
      uint64_t idx = op.code == OP_PUSH || op.code == OP_PUSH_MANY ? size : op.c % (size + 3);
      bool as_push = op.code == OP_PUSH || op.code == OP_PUSH_MANY || (op.code == OP_SET && idx == size);
      bool as_replace = (op.code == OP_REPLACE || op.code == OP_SET) && idx < size;
      OpScope S(*this, op, "C12"); uint64_t tb = table_block(A);
      if (as_push) {
        uint64_t times = op.code == OP_PUSH_MANY ? 1 + op.c % 70000 : 1;
        bool move = op.code == OP_PUSH && (op.d & 1) && ai != xi;
        uint64_t done = 0; bool last_ok = true; bool expect_room_fail = false;
        S.begin(op);
        for (uint64_t t = 0; t < times; t++) {
          bool room = !A.definite || (size + done) < A.capacity;
          uint64_t refused_before = sa_window().refused;
          bool ok = op.code == OP_SET ? cbor_array_set(A.impl, idx, nodes[x].impl) : cbor_array_push(A.impl, move ? cbor_move(nodes[x].impl) : nodes[x].impl);
          bool was_refused = sa_window().refused > refused_before;
          if (move && !ok) { (void)cbor_incref(nodes[x].impl); failed_after_move++; }      // the cbor_move documentation: restore the count when the callee did not take the reference
          bool expect_ok = room && !was_refused;
          if (ok != expect_ok) { S.end(); fail(was_refused ? "C12,C06" : "C12", ok ? "insert-accepted-wrongly" : "insert-refused-wrongly", S.ctx + fmt(": push #%llu returned %d; size %zu, capacity %llu, definite %d, allocation refused %d", (unsigned long long)t, (int)ok, size + (size_t)done, (unsigned long long)A.capacity, (int)A.definite, (int)was_refused)); return R; }
          if (!ok) { last_ok = false; if (!room) expect_room_fail = true; break; }
          done++;
        }
        S.end(); R.executed = true; R.requests = S.w.requests; R.refused = S.refused; R.reported_failure = !last_ok;
        for (uint64_t t = 0; t < done; t++) add_edge(arr, x);
        if (move && done) { nodes[x].ext--; pool.erase(pool.begin() + xi); }
        if (done) { nodes[arr].inserts += done; nodes[arr].reallocs += S.w.reallocs - S.w.refused; nodes[arr].min_growth = std::min(nodes[arr].min_growth, S.w.min_growth); inserts_ok += done; }
        if (expect_room_fail) refusals_capacity++;
        S.table_change(tb, table_block(nodes[arr])); S.account();
        if (!last_ok && done == 0) S.unchanged_after_refusal();
      } else if (as_replace) {
        int old = A.kids[idx]; std::vector<int> dying; std::map<int, int64_t> dec; predict_release(old, dying, dec);
        // the new value gains a reference before the verdict on `old` matters only if they are the same node
        if (old == x) { dying.clear(); }
        S.props = "C12,C04"; S.expect_dying(dying);
        if (!dying.empty() && count(old) == 1) replace_last_ref++;
        S.begin(op);
        bool ok;
        if (op.code == OP_REPLACE && (op.d & 8) && !light) {
          // the client as a second writer to the element table (arrays.h: "the items may be reordered and modified as long as references
          // remain consistent"): it stores the new element itself and keeps the counts right
          cbor_item_t** h = cbor_array_handle(A.impl); cbor_item_t* oldp = h[idx]; h[idx] = cbor_incref(nodes[x].impl); cbor_decref(&oldp); ok = true;
          stat_add("raw_handle_replacements");
        } else ok = op.code == OP_SET ? cbor_array_set(A.impl, idx, nodes[x].impl) : cbor_array_replace(A.impl, idx, nodes[x].impl);
        S.end(); R.executed = true;
        if (!ok) { fail("C12", "replace-in-range-refused", S.ctx + fmt(": index %llu < size %zu but the call returned false", (unsigned long long)idx, size)); return R; }
        nodes[old].in_edges--; nodes[x].in_edges++; nodes[arr].kids[idx] = x;
        if (old != x) { for (int d : dying) { items_released++; if (nodes[d].in_edges + nodes[d].ext > 0) {} } apply_release(dying); }
        S.account();
        if (op.code == OP_REPLACE && (op.d & 8) && !light && (op.c & 64) && arr != x && nodes[x].ext >= 1 && count(x) >= 2) {
          // ... and having put the element in place, the client lets go of its own reference: the array is now what keeps it alive
          OpScope S2(*this, op, "C04"); S2.begin(op); cbor_item_t* t = nodes[x].impl; cbor_decref(&t); S2.end();
          nodes[x].ext--; pool.erase(pool.begin() + xi); S2.account(); stat_add("raw_handle_moves");
        }
      } else {
        // out of range: refused, nothing touched
        S.begin(op);
        bool ok = op.code == OP_SET ? cbor_array_set(A.impl, idx, nodes[x].impl) : cbor_array_replace(A.impl, idx, nodes[x].impl);
        S.end(); R.executed = true; R.reported_failure = !ok; refusals_index++;
        if (ok) { fail("C12", "out-of-range-index-accepted", S.ctx + fmt(": index %llu with size %zu returned true", (unsigned long long)idx, size)); return R; }
        if (S.w.requests || S.w.frees) fail("C12", "out-of-range-index-touches-allocator", S.ctx + ": a refused index caused allocator traffic");
        S.account();
      }
      // growth clause: logarithmic number of reallocations
      { HNode& N = nodes[arr]; if (!N.definite && N.inserts > 0) { uint64_t budget = growth_budget(N.inserts, N.min_growth); if (N.reallocs > budget) fail("C12", "growth-not-geometric", S.ctx + fmt(": %llu reallocations for %llu insertions (budget %llu)", (unsigned long long)N.reallocs, (unsigned long long)N.inserts, (unsigned long long)budget)); } }
      verify(nodes[arr], S.props.c_str(), S.ctx);
      break;
    }
    case OP_GET: {
      int ai = pick(M_ARRAY, op.a); if (ai < 0) break; int arr = pool[ai]; HNode& A = nodes[arr]; size_t size = A.kids.size();
      uint64_t idx = op.c % (size + 3);
      OpScope S(*this, op, "C12"); S.begin(op); cbor_item_t* got = cbor_array_get(A.impl, idx); S.end(); R.executed = true;
      if (idx < size) {
        int k = A.kids[idx];
        if (got != nodes[k].impl) { fail("C12", "get-returns-wrong-item", S.ctx + fmt(": index %llu returned a different item than was stored", (unsigned long long)idx)); return R; }
        nodes[k].ext++; pool.push_back(k);
      } else { refusals_index++; R.reported_failure = got == nullptr; if (got != nullptr) { fail("C12", "get-out-of-range-not-null", S.ctx + fmt(": index %llu with size %zu returned a non-NULL item", (unsigned long long)idx, size)); return R; } }
      if (S.w.requests || S.w.frees) fail("C12,C13", "get-touches-allocator", S.ctx + ": cbor_array_get caused allocator traffic");
      S.account();
      break;
    }
    case OP_MAP_ADD: {
      int mi = pick(M_MAP, op.a), ki = pick(M_ANY, op.b), vi = pick(M_ANY, op.c); if (mi < 0 || ki < 0 || vi < 0) break;
      int m = pool[mi], k = pool[ki], v = pool[vi]; if (reaches(k, m) || reaches(v, m)) break;
      if (!small_enough(k, TREE_BYTES_MAX / 4, 50000) || !small_enough(v, TREE_BYTES_MAX / 4, 50000) || !small_enough(m, TREE_BYTES_MAX / 2, 100000)) break;
      HNode& Mn = nodes[m]; size_t size = Mn.kids.size() / 2; bool room = !Mn.definite || size < Mn.capacity;
      OpScope S(*this, op, "C12"); uint64_t tb = table_block(Mn); S.begin(op);
      bool mk = (op.d & 1) && ki != mi && ki != vi, mv = (op.d & 2) && vi != mi && vi != ki;   // the usual idiom: {.key = cbor_move(k), .value = cbor_move(v)}
      struct cbor_pair pr; pr.key = mk ? cbor_move(nodes[k].impl) : nodes[k].impl; pr.value = mv ? cbor_move(nodes[v].impl) : nodes[v].impl;
      bool ok = cbor_map_add(Mn.impl, pr);
      if (!ok) { if (mk) (void)cbor_incref(nodes[k].impl); if (mv) (void)cbor_incref(nodes[v].impl); if (mk || mv) failed_after_move++; }
      S.end(); R.executed = true; R.requests = S.w.requests; R.refused = S.refused; R.reported_failure = !ok;
      bool expect_ok = room && S.w.refused == 0;
      if (ok != expect_ok) { fail(S.refused ? "C12,C06" : "C12", ok ? "insert-accepted-wrongly" : "insert-refused-wrongly", S.ctx + fmt(": map_add returned %d; size %zu capacity %llu definite %d refused %d", (int)ok, size, (unsigned long long)Mn.capacity, (int)Mn.definite, (int)(S.w.refused > 0))); return R; }
      if (ok) {
        add_edge(m, k); add_edge(m, v); nodes[m].inserts++; nodes[m].reallocs += S.w.reallocs; nodes[m].min_growth = std::min(nodes[m].min_growth, S.w.min_growth); inserts_ok++;
        if (mk) nodes[k].ext--; if (mv) nodes[v].ext--;
        std::vector<int> gone; if (mk) gone.push_back(ki); if (mv) gone.push_back(vi); std::sort(gone.rbegin(), gone.rend()); for (int gi : gone) pool.erase(pool.begin() + gi);
      } else if (!room) refusals_capacity++;
      S.table_change(tb, table_block(nodes[m])); S.account(); if (!ok) S.unchanged_after_refusal();
      { HNode& N = nodes[m]; if (!N.definite && N.inserts > 0) { uint64_t budget = growth_budget(N.inserts, N.min_growth); if (N.reallocs > budget) fail("C12", "growth-not-geometric", S.ctx + fmt(": %llu reallocations for %llu insertions", (unsigned long long)N.reallocs, (unsigned long long)N.inserts)); } }
      verify(nodes[m], S.props.c_str(), S.ctx);
      break;
    }
    case OP_ADD_CHUNK: {
      std::vector<int> strs; for (size_t i = 0; i < pool.size(); i++) { const HNode& n = nodes[pool[i]]; if ((n.kind == MK_BSTR || n.kind == MK_TSTR) && !n.definite) strs.push_back((int)i); }
      if (strs.empty()) break; int s = pool[op.a == SEL_LAST ? strs.back() : strs[op.a % strs.size()]];
      std::vector<int> chunks; for (size_t i = 0; i < pool.size(); i++) { const HNode& n = nodes[pool[i]]; if (n.kind == nodes[s].kind && n.definite) chunks.push_back((int)i); }
      if (chunks.empty()) break; int c = pool[op.b == SEL_LAST ? chunks.back() : chunks[op.b % chunks.size()]];
      HNode& Sn = nodes[s]; OpScope S(*this, op, "C12"); uint64_t tb = table_block(Sn); S.begin(op);
      bool ok = Sn.kind == MK_BSTR ? cbor_bytestring_add_chunk(Sn.impl, nodes[c].impl) : cbor_string_add_chunk(Sn.impl, nodes[c].impl);
      S.end(); R.executed = true; R.requests = S.w.requests; R.refused = S.refused; R.reported_failure = !ok;
      bool expect_ok = S.w.refused == 0;
      if (ok != expect_ok) { fail(S.refused ? "C12,C06" : "C12", ok ? "insert-accepted-wrongly" : "insert-refused-wrongly", S.ctx + fmt(": add_chunk returned %d (allocation refused: %d)", (int)ok, (int)(S.w.refused > 0))); return R; }
      if (ok) { add_edge(s, c); nodes[s].inserts++; nodes[s].reallocs += S.w.reallocs; nodes[s].min_growth = std::min(nodes[s].min_growth, S.w.min_growth); inserts_ok++; }
      S.table_change(tb, table_block(nodes[s])); S.account(); if (!ok) S.unchanged_after_refusal();
      { HNode& N = nodes[s]; if (N.inserts > 0) { uint64_t budget = growth_budget(N.inserts, N.min_growth); if (N.reallocs > budget) fail("C12", "growth-not-geometric", S.ctx + fmt(": %llu reallocations for %llu chunks", (unsigned long long)N.reallocs, (unsigned long long)N.inserts)); } }
      verify(nodes[s], S.props.c_str(), S.ctx);
      break;
    }
    case OP_TAG_SET: {
      int ti = pick(M_TAG, op.a), xi = pick(M_ANY, op.b); if (ti < 0 || xi < 0) break; int t = pool[ti], x = pool[xi]; if (reaches(x, t)) break;
      bool move = (op.d & 1) && ti != xi;      // cbor_tag_set_item(tag, cbor_move(x)): the client hands its reference over
      OpScope S(*this, op, "C04"); S.begin(op); cbor_tag_set_item(nodes[t].impl, move ? cbor_move(nodes[x].impl) : nodes[x].impl); S.end(); R.executed = true;
      if (move) { nodes[x].ext--; for (size_t pi = 0; pi < pool.size(); pi++) if ((int)pi == xi) { pool.erase(pool.begin() + pi); break; } }
      if (!nodes[t].kids.empty()) {
        // documented: the previous item's count is left alone -> the client now owns that reference
        int old = nodes[t].kids[0]; nodes[old].in_edges--; nodes[old].ext++; pool.push_back(old); tag_repointed++;
        nodes[t].kids.clear();
      }
      add_edge(t, x); S.account();
      break;
    }
    case OP_TAG_ITEM: {
      std::vector<int> tags; for (size_t i = 0; i < pool.size(); i++) { const HNode& n = nodes[pool[i]]; if (n.kind == MK_TAG && !n.kids.empty()) tags.push_back((int)i); }
      if (tags.empty()) break; int t = pool[tags[op.a % tags.size()]];
      OpScope S(*this, op, "C04"); S.begin(op); cbor_item_t* got = cbor_tag_item(nodes[t].impl); S.end(); R.executed = true;
      int k = nodes[t].kids[0];
      if (got != nodes[k].impl) { fail("C04,C03", "tag-item-wrong", S.ctx + ": cbor_tag_item returned a different item than was set"); return R; }
      nodes[k].ext++; pool.push_back(k); S.account();
      break;
    }
    // ------------------------------------------------------------ whole-tree operations
    case OP_COPY: {
      int xi = pick(M_ANY, op.a, true); if (xi < 0) break; int x = pool[xi];
      if (!small_enough(x, TREE_BYTES_MAX, 3000)) break;
      MV shape = to_value(x); OpScope S(*this, op, "C11");
      // a "floating" source: the client has cbor_move()d its only reference away (count 0) and copies the item before some container adopts
      // it - key = cbor_move(cbor_build_string("id")); cbor_map_add(m, (struct cbor_pair){key, cbor_move(cbor_copy(key))}). Copying only reads.
      bool floating = !light && (op.d & 4) && count(x) == 1 && nodes[x].ext == 1;
      S.begin(op);
      if (floating) (void)cbor_move(nodes[x].impl);
      cbor_item_t* c = cbor_copy(nodes[x].impl);
      if (floating) { (void)cbor_incref(nodes[x].impl); stat_add("copies_of_floating_source"); }     // the client takes its reference back
      S.end(); R.executed = true; R.requests = S.w.requests; R.refused = S.refused;
      if (S.w.refused > 0) {
        R.reported_failure = c == nullptr;
        if (c) { fail("C06,C11", "copy-succeeds-despite-refused-allocation", S.ctx + ": allocation refused but a copy was returned"); return R; }
        S.account(); S.unchanged_after_refusal(); break;
      }
      if (!c) { fail("C11", "copy-returns-null-without-refusal", S.ctx + ": NULL although no allocation was refused"); return R; }
      std::set<const cbor_item_t*> seen; size_t first_new = nodes.size();
      int root = adopt_tree(c, shape, "C11", seen, "copy");
      if (root < 0 || failed() || g_run.foreign_seen) return R;
      nodes[root].ext = 1; pool.push_back(root);
      std::vector<int> fresh; for (size_t i = first_new; i < nodes.size(); i++) fresh.push_back((int)i);
      for (int f : fresh) { if (!verify(nodes[f], "C11", S.ctx + " (copy)")) return R; if (cbor_refcount(nodes[f].impl) != 1) { fail("C11", "copy-node-refcount-not-one", S.ctx + fmt(": a node of the copy has refcount %zu", cbor_refcount(nodes[f].impl))); return R; } }
      S.born_nodes(fresh); S.account();
      copies++; if (fresh.size() >= 2) { copy_roots.insert(root); copy_sources.insert(x); }
      stat_add("copies"); stat_max("max_copy_nodes", fresh.size());
      break;
    }
    case OP_LOAD: case OP_LOAD_RAW: {
      MV shape;
      if (op.code == OP_LOAD) { int xi = pick(M_ANY, op.a, true); if (xi < 0) break; if (!small_enough(pool[xi], TREE_BYTES_MAX, 3000)) break; shape = to_value(pool[xi]); }
      else shape = raw_shape(op);
      if (ref_depth(shape) > impl_max_stack()) break;
      std::vector<uint8_t> by;
      if (op.code == OP_LOAD_RAW && (op.d & 1)) { Rng wr(op.c, "wire"); gen_encode(wr, shape, by); } else by = ref_encode(shape);   // what arrives need not be in preferred form
      // one raw load in six arrives damaged (cut short, one bit flipped, or wrapped into a chunked string where it has no business):
      // whatever the decoder makes of it, a load that returns NULL must hand back every block it took
      bool damaged = op.code == OP_LOAD_RAW && (op.d & 2) && !(op.d & 28) && (op.c >> 40) % 3 == 0 && !by.empty() && by.size() < 4000;
      RefLoad dref;
      if (damaged) {
        Rng dm(op.c, "damage");
        switch (dm.below(4)) {
          case 0: by.resize(dm.below(by.size())); break;
          case 1: by[dm.below(by.size())] ^= (uint8_t)(1u << dm.below(8)); break;
          default: {
            bool text = dm.chance(1, 2); std::vector<uint8_t> w; w.push_back(text ? 0x7f : 0x5f);
            if (dm.chance(1, 2)) { w.push_back(text ? 0x61 : 0x41); w.push_back('x'); }
            if (dm.chance(1, 4)) { w.push_back(text ? 0x7f : 0x5f); w.push_back(0xff); }
            w.insert(w.end(), by.begin(), by.end());
            if (dm.chance(1, 2)) { w.push_back(text ? 0x61 : 0x41); w.push_back('y'); }
            if (dm.chance(3, 4)) w.push_back(0xff);
            by.swap(w);
          }
        }
        if (by.empty()) by.push_back(0xff);
        dref = ref_load(by.data(), by.size(), impl_max_stack(), sa_max_request());
      }
      unsigned char* buf = (unsigned char*)malloc(by.size()); memcpy(buf, by.data(), by.size());
      struct cbor_load_result res; memset(&res, 0xA5, sizeof res);
      OpScope S(*this, op, "C03"); S.begin(op);
      cbor_item_t* it = cbor_load(buf, by.size(), &res);
      S.end(); R.executed = true; R.requests = S.w.requests; R.refused = S.refused;
      memset(buf, 0x5A, by.size()); free(buf);        // the input may be released at once
      if (damaged && S.w.refused == 0) {
        stat_add("damaged_loads");
        if (!it) { stat_add("damaged_loads_rejected"); S.account(); break; }     // nothing was produced: nothing may stay allocated (op-leaks-block)
        cbor_decref(&it); stat_add(dref.st == R_ITEM ? "damaged_loads_still_wellformed" : "damaged_loads_accepted_unexpectedly"); break;   // what is accepted, and as what, is C05's and C14's business (w_seq), not judged here
      }
      if (S.w.refused > 0) {
        R.reported_failure = it == nullptr;
        if (it) { fail("C06,C05", "load-succeeds-despite-refused-allocation", S.ctx + ": allocation refused but an item was returned"); return R; }
        if (res.error.code != CBOR_ERR_MEMERROR) fail("C06,C05", "refused-allocation-not-MEMERROR", S.ctx + fmt(": error code %d", (int)res.error.code));
        S.account(); S.unchanged_after_refusal(); break;
      }
      if (!it) { fail("C03", "own-encoding-rejected", S.ctx + fmt(": cbor_load rejected the reference encoding of %s (code %d at %zu)", mv_str(shape, 80).c_str(), (int)res.error.code, res.error.position)); return R; }
      if (res.read != by.size()) { fail("C03", "load-read-count", S.ctx + fmt(": read %zu of %zu bytes", res.read, by.size())); return R; }
      std::set<const cbor_item_t*> seen; size_t first_new = nodes.size();
      int root = adopt_tree(it, shape, "C03", seen, "load");
      if (root < 0 || failed() || g_run.foreign_seen) return R;
      nodes[root].ext = 1; pool.push_back(root);
      std::vector<int> fresh; for (size_t i = first_new; i < nodes.size(); i++) fresh.push_back((int)i);
      for (int f : fresh) if (!verify(nodes[f], "C03", S.ctx + " (loaded)")) return R;
      S.born_nodes(fresh); S.account(); roundtrips++;
      break;
    }
    case OP_SERIALIZE_ALLOC: case OP_SERIALIZE: case OP_SIZE: {
      int xi = pick(M_ANY, op.a, true); if (xi < 0) break; int x = pool[xi];
      if (!afford(x, TREE_BYTES_MAX, 250000)) break;
      std::vector<uint8_t> exp = ref_encode(to_value(x));
      OpScope S(*this, op, "C03");
      if (op.code == OP_SIZE) {
        S.begin(op); size_t sz = cbor_serialized_size(nodes[x].impl); S.end(); R.executed = true;
        if (sz != exp.size()) fail("C03", "serialized-size-wrong", S.ctx + fmt(": %zu, reference encoding has %zu bytes", sz, exp.size()));
        if (S.w.requests) fail("C13", "size-computation-allocates", S.ctx + ": cbor_serialized_size made allocator requests");
      } else if (op.code == OP_SERIALIZE) {
        size_t cap = exp.size() + (op.d % 3 == 1 ? 7 : 0);
        if (op.d % 3 == 2 && !exp.empty()) {
          // a client probing with a buffer that is too small (it will retry with a bigger one): must return 0 and have no lasting effect
          size_t small = exp.size() - 1 - (size_t)(op.b % std::min<size_t>(exp.size(), 8));
          unsigned char* sb = (unsigned char*)malloc(small ? small : 1);
          S.begin(op); size_t w0 = cbor_serialize(nodes[x].impl, sb, small); S.end(); R.executed = true;
          if (w0 != 0) fail("C07", "serialize-into-short-buffer-nonzero", S.ctx + fmt(": returned %zu for a %zu-byte buffer, item needs %zu", w0, small, exp.size()));
          free(sb); stat_add("serialize_short_buffer_probes");
          break;
        }
        unsigned char* buf = (unsigned char*)malloc(cap); memset(buf, 0xEE, cap);
        S.begin(op); size_t wr = (op.d & 8) ? impl_serialize_typed(nodes[x].impl, buf, cap) : cbor_serialize(nodes[x].impl, buf, cap); S.end(); R.executed = true;   // the per-type entry points are public API too
        if (wr != exp.size() || memcmp(buf, exp.data(), exp.size()) != 0) fail("C03", "serialization-differs-from-rfc8949", S.ctx + fmt(": wrote %zu bytes [%s], reference %zu bytes [%s] for %s", wr, to_hex(buf, std::min<size_t>(wr, 24)).c_str(), exp.size(), to_hex(exp.data(), std::min<size_t>(exp.size(), 24)).c_str(), mv_str(to_value(x), 80).c_str()));
        if (S.w.requests) fail("C13", "fixed-buffer-serialization-allocates", S.ctx + ": cbor_serialize made allocator requests");
        free(buf);
      } else {
        unsigned char* buf = nullptr; size_t bs = 12345; S.begin(op);
        size_t wr = (op.d & 1) ? cbor_serialize_alloc(nodes[x].impl, &buf, nullptr) : cbor_serialize_alloc(nodes[x].impl, &buf, &bs);
        S.end(); R.executed = true; R.requests = S.w.requests; R.refused = S.refused;
        if (S.w.refused > 0) {
          R.reported_failure = wr == 0 && buf == nullptr;
          if (wr != 0 || buf != nullptr || (!(op.d & 1) && bs != 0)) fail("C06", "serialize-alloc-failure-channel", S.ctx + fmt(": allocation refused but returned %zu, buffer %s, size %zu", wr, buf ? "non-NULL" : "NULL", bs));
          S.account(); S.unchanged_after_refusal(); break;
        }
        if (wr != exp.size() || !buf || memcmp(buf, exp.data(), exp.size()) != 0 || (!(op.d & 1) && bs != exp.size()))
          fail("C03", "serialization-differs-from-rfc8949", S.ctx + fmt(": serialize_alloc wrote %zu bytes, reference %zu bytes for %s", wr, exp.size(), mv_str(to_value(x), 80).c_str()));
        if (buf) { const BlockInfo* b = sa_find(buf); if (!b) fail("C13", "serialize-alloc-buffer-not-from-allocator", S.ctx + ": returned buffer is not a live block of the installed allocator"); else { S.expect_born.insert(b->id); } }
        S.account();
        if (buf && sa_find(buf)) sa_client_free(buf);
      }
      { const HNode& n = nodes[x]; if (n.kind == MK_ARRAY || n.kind == MK_MAP || n.kind == MK_TAG || ((n.kind == MK_BSTR || n.kind == MK_TSTR) && !n.definite)) serial_checked_nontrivial++; }
      break;
    }
    case OP_DESCRIBE: {
      int xi = pick(M_ANY, op.a, true); if (xi < 0) break;
      if (!afford(pool[xi], TREE_BYTES_MAX, 20000)) break;
      // a third of the describes write to a stream that stops accepting bytes part-way (after op.b bytes, through a buffer of a seeded size)
      uint64_t fail_after = (op.d % 3 == 1) ? op.b % 600 : ~0ull; unsigned bufmode = (unsigned)(op.d / 3 % 7); uint64_t werr = 0;
      OpScope S(*this, op, "C04,C06"); S.begin(op); uint64_t dh = describe_to_sink(nodes[pool[xi]].impl, fail_after, bufmode, &werr); S.end(); R.executed = true;
      R.requests = S.w.requests; R.refused = S.refused; R.reported_failure = true;      // void: nothing to report through; it must simply leave everything as it was
      S.account();
      if (S.w.refused > 0) S.unchanged_after_refusal();
      if (werr) stat_add("describe_stream_write_errors_injected");
      g_log.ev("describe-text", dh, werr);
      break;
    }
    // ------------------------------------------------------------ references
    case OP_INCREF: {
      int xi = pick(M_ANY, op.a); if (xi < 0) break; int x = pool[xi];
      OpScope S(*this, op, "C04"); S.begin(op); cbor_item_t* r = cbor_incref(nodes[x].impl); S.end(); R.executed = true;
      if (r != nodes[x].impl) fail("C04", "incref-returns-other-item", S.ctx);
      nodes[x].ext++; pool.push_back(x); S.account();
      break;
    }
    case OP_DECREF: case OP_INTERMEDIATE_DECREF: {
      if (pool.empty()) break; size_t pi = op.a % pool.size(); int x = pool[pi];
      if (op.code == OP_DECREF && (op.d & 4) && !light && nodes[x].kind == MK_ARRAY && count(x) == 1 && nodes[x].ext == 1 && !nodes[x].kids.empty() && (int)pool.size() < POOL_MAX) {
        // moving an element out through the raw handle before dropping the array: mine = h[i]; h[i] = NULL; cbor_decref(&array);
        // every reference is still released exactly once - the array's reference to that element is now the client's
        size_t i = (size_t)(op.b % nodes[x].kids.size()); int k = nodes[x].kids[i];
        cbor_item_t** h = cbor_array_handle(nodes[x].impl);
        if (h && h[i] == nodes[k].impl) { h[i] = nullptr; nodes[x].kids.erase(nodes[x].kids.begin() + (long)i); nodes[k].in_edges--; nodes[k].ext++; pool.push_back(k); stat_add("elements_moved_out_before_release"); }
      }
      std::vector<int> dying; std::map<int, int64_t> dec; predict_release(x, dying, dec);
      OpScope S(*this, op, "C04"); S.expect_dying(dying);
      bool shared_child = false; for (int d : dying) for (int k : nodes[d].kids) if (count(k) - dec[k] > 0) shared_child = true;
      cbor_item_t* p = nodes[x].impl; S.begin(op);
      if (op.code == OP_DECREF) cbor_decref(&p); else cbor_intermediate_decref(p);
      S.end(); R.executed = true;
      bool dies = !dying.empty();
      if (op.code == OP_DECREF && (p == nullptr) != dies) { fail("C04", "decref-null-contract", S.ctx + fmt(": pointer %s after decref although the item %s", p ? "kept" : "nulled", dies ? "was released" : "is still referenced")); return R; }
      nodes[x].ext--; pool.erase(pool.begin() + pi);
      if (dies) { items_released += dying.size(); if (shared_child) shared_releases++; if (dying.size() >= 3) cascades3++; for (int d : dying) if (copy_roots.count(d) || copy_sources.count(d)) copy_then_touched++; }
      apply_release(dying); S.account();
      break;
    }
    // ------------------------------------------------------------ value setters
    case OP_SETVAL: {
      int xi = pick(M_INT | M_FLOAT | M_CTRL, op.a); if (xi < 0) break; int x = pool[xi]; HNode& n = nodes[x];
      OpScope S(*this, op, "C03"); S.begin(op);
      if (n.kind == MK_UINT || n.kind == MK_NEGINT) {
        uint64_t v = op.c; if (n.width < 8) v &= ((1ull << (8 * n.width)) - 1);
        switch (n.width) { case 1: cbor_set_uint8(n.impl, (uint8_t)v); break; case 2: cbor_set_uint16(n.impl, (uint16_t)v); break; case 4: cbor_set_uint32(n.impl, (uint32_t)v); break; default: cbor_set_uint64(n.impl, v); }
        n.val = v;
      } else if (n.kind == MK_FLOAT) {
        if (n.width == 2) { uint64_t b = op.c & 0xffff; cbor_set_float2(n.impl, u2f(half_bits_to_float_bits((uint16_t)b))); n.val = b; }
        else if (n.width == 4) { uint64_t b = op.c & 0xffffffffu; cbor_set_float4(n.impl, u2f((uint32_t)b)); n.val = b; }
        else { cbor_set_float8(n.impl, u2d(op.c)); n.val = op.c; }
      } else {
        if ((n.val == 20 || n.val == 21) && (op.d & 1)) { cbor_set_bool(n.impl, op.c & 1); n.val = (op.c & 1) ? 21 : 20; }
        else { uint8_t v = (uint8_t)(20 + op.c % 4); cbor_set_ctrl(n.impl, v); n.val = v; }
      }
      S.end(); R.executed = true; S.account();
      if (copy_roots.count(x) || copy_sources.count(x)) copy_then_touched++;
      break;
    }
    case OP_MARK: {
      int xi = pick(M_INT, op.a); if (xi < 0) break; int x = pool[xi];
      OpScope S(*this, op, "C03"); S.begin(op); if (op.b & 1) { cbor_mark_negint(nodes[x].impl); nodes[x].kind = MK_NEGINT; } else { cbor_mark_uint(nodes[x].impl); nodes[x].kind = MK_UINT; } S.end(); R.executed = true; S.account();
      break;
    }
    case OP_RESET_HANDLE: {
      // the client edits a string in place through its handle and hands the same block back with the new length
      std::vector<int> c; for (size_t i = 0; i < pool.size(); i++) { const HNode& n = nodes[pool[i]]; if ((n.kind == MK_BSTR || n.kind == MK_TSTR) && n.definite && n.impl && n.impl->data) c.push_back((int)i); }
      if (c.empty()) break; int x = pool[c[op.a % c.size()]]; HNode& n = nodes[x];
      if ((op.d & 2) && !n.bytes.empty()) {
        // "Modifying the data is allowed" (strings.h, bytestrings.h): the client rewrites the payload in place through the handle and does
        // NOT tell the library - whatever the item cached about the old bytes (a code-point count, say) is now stale, and stays the client's problem
        std::vector<uint8_t> nb; gen_payload(op.b, n.bytes.size(), n.kind == MK_BSTR ? 0 : (int)(1 + op.c % 3), nb);
        OpScope S(*this, op, "C04,C13"); S.begin(op);
        unsigned char* hh = n.kind == MK_BSTR ? cbor_bytestring_handle(n.impl) : cbor_string_handle(n.impl);
        if (hh) memcpy(hh, nb.data(), nb.size());
        S.end(); R.executed = true; if (hh) n.bytes = nb; S.account(); stat_add("payload_edits_in_place");
        break;
      }
      size_t nl = (size_t)(op.c % (n.bytes.size() + 1));
      OpScope S(*this, op, "C04,C13"); S.begin(op);
      unsigned char* h = n.impl->data;
      if (nl) h[nl - 1] = (unsigned char)(0x41 + op.b % 26);
      if (n.kind == MK_BSTR) cbor_bytestring_set_handle(n.impl, h, nl); else cbor_string_set_handle(n.impl, h, nl);
      S.end(); R.executed = true;
      n.bytes.resize(nl); if (nl) n.bytes[nl - 1] = (uint8_t)(0x41 + op.b % 26);
      S.account();
      break;
    }
    case OP_BIG: {
      // self-contained marathons on one very large flat container (built and released inside the op; the model is not involved):
      //  a%4 = 0/1/2: growth of an indefinite array / map / chunked string over hundreds of thousands to millions of insertions
      //  a%4 = 3    : decode -> compare -> serialise -> release of a definite or indefinite array/map with a member count around 2^16, 2^18, 2^19
      unsigned variant = (unsigned)(op.a % 6);
      sa_set_max_request((uint64_t)256 << 20);     // for this task only
      uint64_t sig_before = sa_live_sig();
      OpScope S(*this, op, variant == 3 ? "C03" : variant >= 4 ? "C04,C13" : "C12");
      if (variant == 5) {
        //  a%6 = 5: an item whose encoding does not fit in size_t - impossible for a tree, possible for a graph with shared sub-items:
        //  a byte string over a lazily committed 16 TiB mapping, referenced 1024 times by `mid`, which `top` references 512 times
        //  (2^63 bytes), with `top` then used twice in one parent. cbor_serialized_size must answer 0 ("does not fit") and
        //  cbor_serialize_alloc must fail the documented way - 0 returned, *buffer NULL - and own nothing afterwards.
        if (g_task_mode) { sa_set_max_request(0); break; }
        const size_t LEAF = (size_t)1 << 44;
        void* region = sa_client_map_huge(LEAF);
        if (!region) { stat_add("huge_mapping_unavailable"); sa_set_max_request(0); break; }
        cbor_item_t* leaf = cbor_new_definite_bytestring(); cbor_item_t* mid = cbor_new_definite_array(1024); cbor_item_t* top = cbor_new_definite_array(512);
        cbor_item_t* parent = (op.c & 1) ? cbor_new_definite_map(1) : cbor_new_definite_array(2 + op.c % 3);
        bool built = leaf && mid && top && parent;
        if (leaf) cbor_bytestring_set_handle(leaf, (cbor_mutable_data)region, LEAF); else sa_client_free(region);
        for (unsigned i = 0; built && i < 1024; i++) built = cbor_array_push(mid, leaf);
        for (unsigned i = 0; built && i < 512; i++) built = cbor_array_push(top, mid);
        if (built) {
          if (op.c & 1) { struct cbor_pair pr; pr.key = top; pr.value = top; built = cbor_map_add(parent, pr); }
          else for (unsigned i = 0; built && i < 2 + op.c % 3; i++) built = cbor_array_push(parent, top);
        }
        if (built) {
          R.executed = true;
          uint64_t live0 = sa_live_count(), req0 = sa_total_requests();
          size_t half = cbor_serialized_size(top), whole = cbor_serialized_size(parent);
          if (sa_total_requests() != req0) fail("C13", "size-computation-allocates", S.ctx);
          if (half == 0 || half < ((size_t)1 << 63)) fail("C03,C07,C20", "serialized-size-wrong", S.ctx + fmt(": a 2^63-byte encoding is reported as %zu", half));
          if (whole != 0) fail("C04,C13", "serialize-alloc-failure-leaves-buffer", S.ctx + fmt(": cbor_serialized_size reports %zu for an item whose encoding exceeds SIZE_MAX (0 expected); cbor_serialize_alloc sizes its buffer with it", whole));
          unsigned char* buf = (unsigned char*)(uintptr_t)0x1; size_t bs = 12345;
          size_t wr = cbor_serialize_alloc(parent, &buf, &bs);
          if (wr != 0) fail("C04,C13", "serialize-alloc-failure-leaves-buffer", S.ctx + fmt(": cbor_serialize_alloc returned %zu for an item that cannot be serialised", wr));
          else if (buf != nullptr || sa_live_count() != live0) { fail("C04,C13", "serialize-alloc-failure-leaves-buffer", S.ctx + fmt(": cbor_serialize_alloc returned 0 (failure) but left %s and %lld block(s) more than before: memory the client is never told about", buf ? "a buffer in *buffer" : "no buffer", (long long)(sa_live_count() - live0))); }
          stat_add("marathon_size_overflow");
        }
        if (!failed()) { if (parent) cbor_decref(&parent); if (top) cbor_decref(&top); if (mid) cbor_decref(&mid); if (leaf) cbor_decref(&leaf); }
        if (!failed() && sa_live_sig() != sig_before) fail("C04,C13", "op-leaks-block", S.ctx + ": blocks remain after the oversized graph was released");
        sa_set_max_request(0);
        break;
      }
      if (variant == 4) {
        //  a%5 = 4: more than 2^32 references to one item (a history no container can hold, but a client taking and releasing
        //  references in a loop can): the count must not wrap
        cbor_item_t* x = cbor_build_uint8(1); cbor_item_t* holder = cbor_new_definite_array(1);
        if (x && holder && cbor_array_push(holder, x)) {
          const uint64_t N = ((uint64_t)1 << 32) - 1 + (op.c % 3);
          for (uint64_t i = 0; i < N; i++) (void)cbor_incref(x);
          R.executed = true;
          if (cbor_refcount(x) != N + 2) fail("C04,C13", "refcount-differs-from-ownership-rules", S.ctx + fmt(": after %llu + 2 references the count reads %zu", (unsigned long long)N, cbor_refcount(x)));
          else {
            cbor_item_t* p = x; cbor_decref(&p);
            if (p == nullptr) fail("C04,C13", "decref-null-contract", S.ctx + ": the item was released while 2^32 references remain");
            else { for (uint64_t i = 1; i < N; i++) cbor_intermediate_decref(x); if (cbor_refcount(x) != 2) fail("C04,C13", "refcount-differs-from-ownership-rules", S.ctx + fmt(": count %zu after releasing all but two references", cbor_refcount(x))); }
          }
          stat_add("marathon_refcount");
        }
        if (!failed()) { if (holder) cbor_decref(&holder); if (x) cbor_decref(&x); }
        if (!failed() && sa_live_sig() != sig_before) fail("C04,C13", "op-leaks-block", S.ctx + ": blocks remain after the reference marathon");
        sa_set_max_request(0);
        break;
      }
      if (variant < 3) {
        static const uint64_t NS[] = {262145, 300000, 524289, 1000000, 1048577, 2097153};
        uint64_t n = NS[op.c % 6]; if (variant == 1 && n > 1048577) n = 1048577;
        cbor_item_t* c = variant == 0 ? cbor_new_indefinite_array() : variant == 1 ? cbor_new_indefinite_map() : cbor_new_indefinite_bytestring();
        cbor_item_t* e = variant == 2 ? cbor_build_bytestring((const unsigned char*)"x", 1) : cbor_build_uint8(7);
        if (c && e) {
          // half of the marathons refuse ONE late growth step (tables of 1 MiB and more): memory pressure arrives when containers are big.
          // The insertion must be refused with the container intact; the client retries and carries on.
          FaultSpec mf; uint64_t refusals_seen = 0;
          if (op.d % 2 == 1) { mf.kind = F_NTH; mf.k = (variant == 1 ? 16 : 17) + op.b % 4; }     // the window's requests are the growth steps: 0->1, 1->2, 2->4, ...
          sa_begin(mf); uint64_t done = 0; bool ok = true;
          bool over = false;
          for (uint64_t i = 0; i < n && ok && !over; i++) {
            uint64_t refused0 = sa_window().refused;
            size_t size0 = variant == 0 ? cbor_array_size(c) : variant == 1 ? cbor_map_size(c) : cbor_bytestring_chunk_count(c);
            size_t cap0 = variant == 0 ? cbor_array_allocated(c) : variant == 1 ? cbor_map_allocated(c) : 0;
            if (variant == 0) ok = cbor_array_push(c, e);
            else if (variant == 1) { struct cbor_pair pr; pr.key = e; pr.value = e; ok = cbor_map_add(c, pr); }
            else ok = cbor_bytestring_add_chunk(c, e);
            if (sa_window().refused > refused0) {
              refusals_seen++;
              size_t size1 = variant == 0 ? cbor_array_size(c) : variant == 1 ? cbor_map_size(c) : cbor_bytestring_chunk_count(c);
              size_t cap1 = variant == 0 ? cbor_array_allocated(c) : variant == 1 ? cbor_map_allocated(c) : 0;
              if (ok) { fail("C12,C06", "insert-accepted-wrongly", S.ctx + fmt(": insertion %llu succeeded although the growth request it needed was refused", (unsigned long long)i)); break; }
              if (size1 != size0 || cap1 != cap0 || cbor_refcount(e) != 1 + size0 * (variant == 1 ? 2 : 1)) { fail("C12,C06", "failed-op-changes-container", S.ctx + fmt(": refused insertion %llu left size %zu->%zu, capacity %zu->%zu", (unsigned long long)i, size0, size1, cap0, cap1)); break; }
              ok = true; i--; continue;        // the client tries again (the refusal was a one-off)
            }
            if (ok) done++;
            // a growth policy that is not geometric makes this loop quadratic: stop as soon as the budget for the whole marathon is spent
            if ((i & 1023) == 1023 && sa_window().reallocs - sa_window().refused > growth_budget(n, sa_window().min_growth)) over = true;
          }
          OpWindow w = sa_end(); R.executed = true; R.requests = w.requests;
          uint64_t budget = growth_budget(n, w.min_growth);
          if (failed()) {}
          else if (over) fail("C12", "growth-not-geometric", S.ctx + fmt(": %llu reallocations after only %llu of %llu insertions (budget for all of them: %llu)", (unsigned long long)w.reallocs, (unsigned long long)done, (unsigned long long)n, (unsigned long long)budget));
          else if (!ok || done != n) fail("C12", "insert-refused-wrongly", S.ctx + fmt(": insertion %llu of %llu into an indefinite container was refused although no allocation was", (unsigned long long)done, (unsigned long long)n));
          else if (w.reallocs - w.refused > budget) fail("C12", "growth-not-geometric", S.ctx + fmt(": %llu reallocations for %llu insertions (budget %llu)", (unsigned long long)(w.reallocs - w.refused), (unsigned long long)n, (unsigned long long)budget));
          else {
            size_t sz = variant == 0 ? cbor_array_size(c) : variant == 1 ? cbor_map_size(c) : cbor_bytestring_chunk_count(c);
            size_t al = variant == 0 ? cbor_array_allocated(c) : variant == 1 ? cbor_map_allocated(c) : sz;
            if (sz != n || sz > al) fail("C12", "model-divergence", S.ctx + fmt(": size %zu allocated %zu after %llu insertions", sz, al, (unsigned long long)n));
            if (cbor_refcount(e) != 1 + n * (variant == 1 ? 2 : 1)) fail("C04,C12", "refcount-differs-from-ownership-rules", S.ctx + fmt(": element refcount %zu after %llu insertions", cbor_refcount(e), (unsigned long long)n));
          }
          stat_add("marathon_growth"); stat_max("max_marathon_insertions", n); if (refusals_seen) stat_add("marathon_growth_with_late_refusal");
        }
        if (c) cbor_decref(&c);
        if (e) cbor_decref(&e);
      } else {
        static const uint64_t NS[] = {65535, 65536, 65537, 262143, 262144, 262145, 300000, 524288, 524289};
        uint64_t n = NS[op.c % 9]; unsigned shape = (unsigned)(op.b % 4);   // 0 definite array, 1 definite map, 2 indefinite array, 3 indefinite map
        if (shape % 2 == 1 && n > 300000) n = 262145;
        std::vector<uint8_t> by;
        if (shape == 0) ref_head(4, n, by); else if (shape == 1) ref_head(5, n, by); else by.push_back(shape == 2 ? 0x9f : 0xbf);
        uint64_t members = (shape % 2 == 1) ? 2 * n : n;
        for (uint64_t i = 0; i < members; i++) by.push_back((uint8_t)(i % 24));
        if (shape >= 2) by.push_back(0xff);
        unsigned char* buf = (unsigned char*)malloc(by.size()); memcpy(buf, by.data(), by.size());
        struct cbor_load_result res; memset(&res, 0xA5, sizeof res);
        // an indefinite container's table is grown step by step while it is decoded; a policy that is not geometric would keep this call
        // busy for hours, so resizes beyond (generously) four times the budget are refused and the growth clause is reported instead
        uint64_t rbudget = growth_budget(members, 1e9); sa_set_realloc_limit(4 * rbudget + 64);
        sa_begin(FaultSpec()); cbor_item_t* it = cbor_load(buf, by.size(), &res); OpWindow lw = sa_end(); R.executed = true; sa_set_realloc_limit(0);
        memset(buf, 0x5A, by.size()); free(buf);
        if (!it && lw.reallocs >= 4 * rbudget + 64) fail("C12", "growth-not-geometric", S.ctx + fmt(": decoding a %llu-member container made %llu reallocations (budget %llu) before the harness stopped granting them", (unsigned long long)n, (unsigned long long)lw.reallocs, (unsigned long long)rbudget));
        else if (!it) fail("C03", "own-encoding-rejected", S.ctx + fmt(": cbor_load rejected a well-formed %s of %llu members (code %d at %zu)", shape % 2 ? "map" : "array", (unsigned long long)n, (int)res.error.code, res.error.position));
        else {
          size_t sz = shape % 2 ? (cbor_isa_map(it) ? cbor_map_size(it) : 0) : (cbor_isa_array(it) ? cbor_array_size(it) : 0);
          if (res.read != by.size() || sz != n) fail("C03", "roundtrip-tree-differs", S.ctx + fmt(": %s of %llu members decoded with read=%zu of %zu, size %zu", shape % 2 ? "map" : "array", (unsigned long long)n, res.read, by.size(), sz));
          else {
            bool same = true;
            if (shape % 2 == 0) { cbor_item_t** h = cbor_array_handle(it); for (uint64_t i = 0; i < n && same; i++) same = h[i] && cbor_isa_uint(h[i]) && cbor_get_int(h[i]) == i % 24; }
            else { struct cbor_pair* h = cbor_map_handle(it); for (uint64_t i = 0; i < n && same; i++) same = h[i].key && h[i].value && cbor_get_int(h[i].key) == (2 * i) % 24 && cbor_get_int(h[i].value) == (2 * i + 1) % 24; }
            if (!same) fail("C03", "roundtrip-tree-differs", S.ctx + ": a member of the decoded container differs from the input");
            unsigned char* out = nullptr; size_t os = 0; sa_begin(FaultSpec()); size_t wr = cbor_serialize_alloc(it, &out, &os); sa_end();
            if (!failed() && (wr != by.size() || !out || memcmp(out, by.data(), by.size()) != 0)) fail("C03", "serialization-differs-from-rfc8949", S.ctx + fmt(": re-serialising the decoded %llu-member container gives %zu bytes, input had %zu", (unsigned long long)n, wr, by.size()));
            if (out) sa_client_free(out);
          }
          cbor_decref(&it);
        }
        stat_add("marathon_big_load"); roundtrips++; serial_checked_nontrivial++;
      }
      if (!failed() && sa_live_sig() != sig_before) fail("C04,C03,C12", "op-leaks-block", S.ctx + ": blocks remain after the marathon container was released");
      sa_set_max_request(0);
      break;
    }
    case OP_GETTERS: {
      int xi = pick(M_ANY, op.a); if (xi < 0) break; int x = pool[xi]; const HNode& n = nodes[x]; const cbor_item_t* it = n.impl;
      OpScope S(*this, op, "C03,C12"); S.begin(op);
      bool consistent = cbor_is_int(it) == (n.kind == MK_UINT || n.kind == MK_NEGINT) && cbor_is_float(it) == (n.kind == MK_FLOAT) && cbor_is_bool(it) == (n.kind == MK_CTRL && (n.val == 20 || n.val == 21)) &&
                        cbor_is_null(it) == (n.kind == MK_CTRL && n.val == 22) && cbor_is_undef(it) == (n.kind == MK_CTRL && n.val == 23) &&
                        cbor_isa_uint(it) == (n.kind == MK_UINT) && cbor_isa_negint(it) == (n.kind == MK_NEGINT) && cbor_isa_bytestring(it) == (n.kind == MK_BSTR) && cbor_isa_string(it) == (n.kind == MK_TSTR) &&
                        cbor_isa_array(it) == (n.kind == MK_ARRAY) && cbor_isa_map(it) == (n.kind == MK_MAP) && cbor_isa_tag(it) == (n.kind == MK_TAG) && cbor_isa_float_ctrl(it) == (n.kind == MK_FLOAT || n.kind == MK_CTRL);
      S.end(); R.executed = true;
      if (!consistent) fail("C03,C12", "type-predicates-inconsistent", S.ctx + fmt(": predicates disagree with the model for node #%d", x));
      if (S.w.requests || S.w.frees) fail("C13", "getter-touches-allocator", S.ctx);
      if (serialisable(x) && afford(x, TREE_BYTES_MAX, 100000)) { std::string why; if (!impl_equals(it, to_value(x), why)) fail("C03,C12", "tree-differs-from-model", S.ctx + ": " + why); }
      break;
    }
  }
  if (R.executed) {
    g_log.ev("result", (uint64_t)op.code, (uint64_t)R.reported_failure * 2 + (uint64_t)R.refused, R.requests);
    { static std::string names[OP__COUNT][3]; if (names[0][0].empty()) for (int c = 0; c < OP__COUNT; c++) { names[c][0] = std::string("api_") + op_name(c); names[c][1] = names[c][0] + "_refused_alloc"; names[c][2] = names[c][0] + "_reported_failure"; }
      stat_add(names[op.code][0].c_str()); if (R.refused) stat_add(names[op.code][1].c_str()); if (R.reported_failure) stat_add(names[op.code][2].c_str()); }
    stat_add("ops_executed");
    std::string ctx = fmt("after %s", op_name(op.code));
    const char* props = R.refused ? "C04,C06" : (op.code == OP_COPY ? "C04,C11" : "C04");
    check_refcounts(props, ctx);
    if (!failed() && !g_run.foreign_seen) verify_all(R.refused ? "C06,C12,C11,C03" : "C12,C11,C03", ctx);
  }
  return R;
}

void Hist::final_checks() {
  std::set<int> done;
  // every tree the client still holds is described once (the property lists describe among the things threads do concurrently)
  { std::set<int> seen; for (size_t i = 0; i < pool.size() && !failed() && !g_run.foreign_seen; i++) { int x = pool[i]; if (!seen.insert(x).second || !serialisable(x) || !afford(x, TREE_BYTES_MAX, 20000)) continue; uint64_t dh = describe_to_sink(nodes[x].impl); g_log.ev("describe-text", dh); stat_add("final_describes"); } }
  for (size_t i = 0; i < pool.size() && !failed() && !g_run.foreign_seen; i++) {
    int x = pool[i]; if (done.count(x) || !serialisable(x)) continue; done.insert(x);
    if (!afford(x, TREE_BYTES_MAX, 250000)) continue;
    MV v = to_value(x); if (ref_depth(v) > impl_max_stack()) continue;
    std::vector<uint8_t> exp = ref_encode(v);
    unsigned char* buf = nullptr; size_t bs = 0;
    if (exp.size() > sa_max_request()) continue;      // the simulated allocator would refuse the output buffer
    sa_begin(FaultSpec()); size_t wr = cbor_serialize_alloc(nodes[x].impl, &buf, &bs); sa_end();
    std::string ctx = fmt("final round-trip of root #%d %s", x, mv_str(v, 80).c_str());
    if (wr != exp.size() || !buf || memcmp(buf, exp.data(), exp.size()) != 0) { fail("C03", "serialization-differs-from-rfc8949", ctx + fmt(": wrote %zu bytes [%s], reference %zu bytes [%s]", wr, buf ? to_hex(buf, std::min<size_t>(wr, 24)).c_str() : "", exp.size(), to_hex(exp.data(), std::min<size_t>(exp.size(), 24)).c_str())); if (buf) sa_client_free(buf); return; }
    struct cbor_load_result res; sa_begin(FaultSpec()); cbor_item_t* back = cbor_load(buf, wr, &res); sa_end();
    if (!back) { fail("C03", "own-serialization-rejected", ctx + fmt(": cbor_load rejected what cbor_serialize wrote (code %d at %zu)", (int)res.error.code, res.error.position)); sa_client_free(buf); return; }
    std::string why;
    if (res.read != wr) fail("C03", "roundtrip-read-count", ctx + fmt(": load consumed %zu of %zu bytes", res.read, wr));
    else if (!impl_equals(back, v, why)) fail("C03", "roundtrip-tree-differs", ctx + ": " + why);
    else {
      unsigned char* buf2 = nullptr; size_t bs2 = 0; sa_begin(FaultSpec()); size_t wr2 = cbor_serialize_alloc(back, &buf2, &bs2); sa_end();
      if (wr2 != wr || !buf2 || memcmp(buf2, buf, wr) != 0) fail("C03", "reserialization-differs", ctx + ": serialising the re-loaded tree gives different bytes");
      if (buf2) sa_client_free(buf2);
    }
    sa_begin(FaultSpec()); cbor_decref(&back); sa_end();
    sa_client_free(buf); roundtrips++;
    if (v.kind == MK_ARRAY || v.kind == MK_MAP || v.kind == MK_TAG || ((v.kind == MK_BSTR || v.kind == MK_TSTR) && !v.definite)) serial_checked_nontrivial++;
  }
}

void Hist::drop_all(const std::vector<uint64_t>& order) {
  size_t oi = 0;
  while (!pool.empty() && !failed() && !g_run.foreign_seen) {
    HOp op; op.code = OP_DECREF; op.a = oi < order.size() ? order[oi] : 0; oi++;
    run_op(op);
  }
  if (failed() || g_run.foreign_seen) return;
  if (sa_live_count_mine() != 0) fail("C04", "memory-remains-after-all-references-dropped", fmt("%llu block(s) (%llu bytes) still live after the client dropped every reference", (unsigned long long)sa_live_count(), (unsigned long long)sa_live_bytes()));
}
