// C19 — nesting chains against the configured decoding-stack limit L, on a bounded simulator-owned stack.
// DESIGN.md §5.C19. The build under test fixes L (CMake option CBOR_MAX_STACK_SIZE); the driver runs this
// workload once per configured L.
#include "sim.hpp"
#include "impl.hpp"
#include "loadcheck.hpp"
#include "sched.hpp"
#include "protect.hpp"

namespace {
// one nesting level: bytes before and after the child
struct Lvl { std::vector<uint8_t> pre, post; };
Lvl level(unsigned kind) {
  switch (kind % 12) {
    case 0: return {{0xc1}, {}};                       // tag
    case 1: return {{0x81}, {}};                       // definite array of 1
    case 2: return {{0x9f}, {0xff}};                   // indefinite array
    case 3: return {{0xa1, 0x00}, {}};                 // definite map, child in value position
    case 4: return {{0xa1}, {0x00}};                   // definite map, child in key position
    case 5: return {{0xbf, 0x00}, {0xff}};             // indefinite map, value position
    case 6: return {{0xbf}, {0x00, 0xff}};             // indefinite map, key position
    case 7: return {{0x82}, {0x00}};                   // array of 2, child first
    case 8: return {{0x82, 0x80}, {}};                 // array of 2: empty array (no level), then child
    case 9: return {{0x82, 0xa0}, {}};                 // array of 2: empty map (no level), then child
    case 10: return {{0xd8, 0x2a}, {}};                // tag with 1-byte argument
    default: return {{0x9f, 0x80}, {0xff}};            // indefinite array: empty array then child
  }
}
// leaf kinds 6 and 7 carry a payload that dwarfs any reasonable stack frame (a definite byte string / a chunk of 96 KiB + a bit): native stack
// has to follow the nesting depth, not the size of what is nested. They are calibrated as their small counterparts (kinds 0 and 3).
static void big_payload(std::vector<uint8_t>& out, size_t n) { out.push_back(0x5a); for (int i = 3; i >= 0; i--) out.push_back((uint8_t)(n >> (8 * i))); for (size_t i = 0; i < n; i++) out.push_back((uint8_t)(i * 31)); }
void leaf(unsigned kind, std::vector<uint8_t>& out, unsigned* levels) {
  if (kind == 6) { big_payload(out, 98304 + 17); *levels = 0; return; }
  if (kind == 7) { out.push_back(0x5f); big_payload(out, 98304 + 5); out.push_back(0xff); *levels = 1; return; }
  switch (kind % 6) {
    case 0: out.push_back(0x00); *levels = 0; break;
    case 1: out.push_back(0x80); *levels = 0; break;                                  // empty definite array: opens no level
    case 2: out.push_back(0xa0); *levels = 0; break;
    case 3: out.insert(out.end(), {0x5f, 0x41, 0x00, 0xff}); *levels = 1; break;      // chunked byte string innermost
    case 4: out.insert(out.end(), {0x7f, 0x61, 0x61, 0x60, 0xff}); *levels = 1; break;
    default: out.insert(out.end(), {0x9f, 0xff}); *levels = 1; break;                 // empty indefinite array: one level
  }
}
}  // namespace
unsigned nest_leaf_levels(unsigned leaf_kind) { if (leaf_kind == 6) return 0; if (leaf_kind == 7) return 1; return (leaf_kind % 6) >= 3 ? 1 : 0; }
void nest_chain(const std::vector<uint64_t>& kinds, size_t depth, unsigned leaf_kind, std::vector<uint8_t>& out, unsigned* total_levels) {
  std::vector<uint8_t> tail;
  for (size_t i = 0; i < depth; i++) { Lvl l = level((unsigned)kinds[i % kinds.size()]); out.insert(out.end(), l.pre.begin(), l.pre.end()); }
  unsigned lv = 0; leaf(leaf_kind, out, &lv);
  for (size_t i = depth; i-- > 0;) { Lvl l = level((unsigned)kinds[i % kinds.size()]); out.insert(out.end(), l.post.begin(), l.post.end()); }
  *total_levels = (unsigned)depth + lv;
}

// deep AND bushy: every level is an indefinite array holding `w` empty containers (they open no level), then the next level, then w/4 more
static void nest_chain_bushy(size_t depth, uint64_t w, unsigned leaf_kind, std::vector<uint8_t>& out, unsigned* total_levels) {
  for (size_t i = 0; i < depth; i++) { out.push_back(0x9f); for (uint64_t k = 0; k < w; k++) out.push_back((k + i) % 3 == 0 ? 0xa0 : 0x80); }
  unsigned lv = 0; leaf(leaf_kind, out, &lv);
  for (size_t i = depth; i-- > 0;) { for (uint64_t k = 0; k < w / 4; k++) out.push_back(0x80); out.push_back(0xff); }
  *total_levels = (unsigned)depth + lv;
}

J gen_nest(const std::string& prop, uint64_t run_seed, const std::string& tier) {
  (void)prop; (void)tier;
  Rng g(run_seed, "gen"), kn(run_seed, "knobs"), net(run_seed, "net");
  unsigned L = impl_max_stack();
  J plan = J::obj(); J knobs = J::obj();
  knobs.set("be", (uint64_t)BE_DIRECT); knobs.set("maxreq", (uint64_t)1 << 20); knobs.set("watchdog", 300);
  plan.set("knobs", knobs);
  plan.set("L", L);
  J kinds = J::arr(); unsigned nk = (unsigned)g.range(1, 6); bool uniform = g.chance(1, 3);
  unsigned k0 = (unsigned)g.below(12);
  for (unsigned i = 0; i < nk; i++) kinds.push(uniform ? k0 : g.below(12));
  plan.set("chain", kinds);
  unsigned lk = (unsigned)g.below(6); if (g.chance(1, 8)) lk = 6 + (unsigned)g.below(2); plan.set("leaf", lk);
  unsigned leaf_levels = nest_leaf_levels(lk);
  // total nesting relative to the limit: L-1, L, L+1, 4L, and a few others
  uint64_t want;
  switch (g.below(8)) { case 0: want = L > 1 ? L - 1 : 1; break; case 1: case 2: want = L; break; case 3: case 4: want = (uint64_t)L + 1; break; case 5: want = 4ull * L; break; case 6: want = g.range(1, 2ull * L + 2); break; default: want = (uint64_t)L + g.below(4); }
  uint64_t depth = want > leaf_levels ? want - leaf_levels : (leaf_levels ? 0 : 1);
  plan.set("depth", depth);
  // zig-zag: before the chain proper, nest `a` indefinite arrays deep, come back up to `b` open levels, and only then go down to the
  // target depth - a decoder whose bookkeeping shrinks or rebalances on the way up must still enforce the limit afterwards
  if (g.chance(1, 3)) {
    uint64_t a = g.chance(1, 2) ? g.range(2, std::max<uint64_t>(2, std::min<uint64_t>(L, 80))) : g.range(2, std::max<uint64_t>(2, L));
    uint64_t b = 1 + (g.chance(1, 2) ? g.below(a / 4 + 1) : g.below(a)); if (b >= a) b = a - 1;   // at least one level stays open, or the prefix would be a complete item
    J z = J::arr(); z.push(a); z.push(b); plan.set("zig", z);
  }
  // deep and bushy at once: per-level bookkeeping that is sized by the limit but filled by siblings shows only here
  if (!plan.has("zig") && g.chance(1, 6)) {
    static const uint64_t WS[] = {1, 2, 7}; uint64_t w;
    switch (g.below(6)) { case 0: w = WS[g.below(3)]; break; case 1: w = (uint64_t)L + 1; break; case 2: case 3: w = (uint64_t)L + 2; break; case 4: w = (uint64_t)L + 3; break; default: w = 2ull * L + 5; }
    uint64_t bd = depth; if (bd > L) bd = g.chance(1, 2) ? L : (L > 1 ? L - 1 : 1);      // bushy inputs stay within the limit: it is their release that is interesting
    while (bd > 1 && bd * (w + w / 4 + 2) > 600000) bd = bd * 3 / 4;
    if (bd * (w + w / 4 + 2) <= 600000) { plan.set("bush", w); plan.set("depth", bd); depth = bd; }
  }
  // fragments
  J cuts = J::arr(); unsigned nf = (unsigned)net.below(6); for (unsigned i = 0; i < nf; i++) cuts.push(net.range(1, 3 * depth + 4)); plan.set("cuts", cuts);
  if (net.chance(1, 6)) plan.set("close", net.below(4 * depth + 6));
  return plan;
}

void exec_nest(const J& plan) {
  sa_reset(knobs_alloc(plan));
  unsigned L = impl_max_stack();
  std::vector<uint64_t> kinds; for (size_t i = 0; i < plan.at("chain").size(); i++) kinds.push_back(plan.at("chain").iu(i));
  if (kinds.empty()) kinds.push_back(0);
  uint64_t depth = plan.getu("depth", 1); if (depth > 40000) depth = 40000;
  unsigned leaf_kind = (unsigned)plan.getu("leaf");
  std::vector<uint8_t> stream; unsigned levels = 0;
  uint64_t zig_a = plan.at("zig").iu(0), zig_b = plan.at("zig").iu(1);
  if (zig_a > 1 && zig_a <= L && zig_b >= 1 && zig_b < zig_a && depth > zig_b) {
    // 9f x a, ff x (a-b): b indefinite arrays stay open, each already holding one finished child; then the rest of the chain below them
    stream.insert(stream.end(), (size_t)zig_a, 0x9f); stream.insert(stream.end(), (size_t)(zig_a - zig_b), 0xff);
    std::vector<uint8_t> rest; unsigned rl = 0; nest_chain(kinds, (size_t)(depth - zig_b), leaf_kind, rest, &rl);
    stream.insert(stream.end(), rest.begin(), rest.end()); stream.insert(stream.end(), (size_t)zig_b, 0xff);
    levels = (unsigned)zig_b + rl;
  } else if (plan.getu("bush", 0) > 0) { kinds.assign(1, 2); nest_chain_bushy((size_t)depth, plan.getu("bush"), leaf_kind, stream, &levels); stat_add("bushy_chains"); }
  else nest_chain(kinds, (size_t)depth, leaf_kind, stream, &levels);
  // --- calibration: the same kinds nested exactly as deep as the limit allows, on a generous stack: how much native stack does the accepted pipeline use on this build?
  unsigned leaf_levels = levels - (unsigned)depth;
  size_t cal_depth = L > leaf_levels ? L - leaf_levels : 0;
  unsigned cal_leaf = leaf_kind == 6 ? 0 : leaf_kind == 7 ? 3 : leaf_kind;      // the budget is what the same nesting costs with a small payload
  std::vector<uint8_t> cal; unsigned cal_levels = 0; nest_chain(kinds, cal_depth, cal_leaf, cal, &cal_levels);
  size_t used_max = 0;
  LoadOpts co; co.L = L; co.deep_post = true; co.where = "calibration chain at depth L";
  co.runner = [&](const std::function<void()>& f) { size_t used = 0; prot_set_ctx("calibration pipeline at depth L (generous stack)"); sched_run_on_stack(((size_t)4 << 20) + (size_t)65536 * L, f, &used); if (used > used_max) used_max = used; };
  LoadOutcome c0 = checked_load(cal.data(), cal.size(), co, nullptr);
  if (!c0.item && c0.ref.st == R_ITEM && c0.refused == 0) { fail("C19", "nesting-within-limit-rejected", fmt("a chain nested exactly L=%u levels deep was not decoded (code %d at %llu)", L, c0.code, (unsigned long long)c0.position)); return; }
  if (failed() || g_run.foreign_seen) return;
  if (!c0.item) return;
  if (used_max > (size_t)(1 << 20) + (size_t)32768 * L) {   // only a sanity bound: the property asks for proportionality, not for a constant
 fail("C19", "stack-use-not-proportional-to-L", fmt("decode/describe/size/serialize/copy/release of a depth-L tree used %zu bytes of native stack with L=%u", used_max, L)); return; }
  stat_max("max_stack_used_at_depth_L", used_max);
  // proportional to L: the same kinds nested L/2 deep must need about half of it (a per-level cost that itself grows with depth shows here)
  if (L >= 64) {
    std::vector<uint8_t> half; unsigned hl = 0; nest_chain(kinds, cal_depth / 2, cal_leaf, half, &hl);
    size_t used_half = 0, keep = used_max; used_max = 0;
    LoadOutcome ch = checked_load(half.data(), half.size(), co, nullptr);
    used_half = used_max; used_max = keep;
    if (failed() || g_run.foreign_seen) return;
    if (ch.item && (double)used_max > 2.5 * (double)used_half + (double)(256 << 10)) { fail("C19", "stack-use-not-proportional-to-L", fmt("the pipeline used %zu bytes of native stack at nesting %u but %zu bytes at nesting %u: more than proportional", used_max, cal_levels, used_half, hl)); return; }
    stat_max("max_stack_used_at_depth_L_half", used_half);
  }
  // --- the run proper: bounded stack = twice what the deepest acceptable tree needed (+ slack for libc)
  size_t budget = 2 * used_max + ((size_t)64 << 10);
  LoadOpts o; o.L = L; o.deep_post = true;
  o.runner = [&](const std::function<void()>& f) { size_t used = 0; prot_set_ctx("decode pipeline on the bounded stack"); sched_run_on_stack(budget, f, &used); stat_max("max_stack_used_bounded", used); };
  std::vector<uint64_t> cuts; for (size_t i = 0; i < plan.at("cuts").size(); i++) cuts.push_back(std::max<uint64_t>(1, plan.at("cuts").iu(i)));
  uint64_t total = plan.has("close") ? std::min<uint64_t>(plan.getu("close"), stream.size()) : stream.size();
  uint64_t sent = 0; size_t fi = 0; bool done = false; uint64_t calls = 0, rejected_deep = 0, accepted = 0;
  while (sent < total && !done && !failed() && !g_run.foreign_seen) {
    uint64_t sz = fi < cuts.size() ? cuts[fi] : total - sent; if (sz > total - sent) sz = total - sent; fi++; sent += sz;
    std::string where = fmt("L=%u, chain of %u level(s), %llu of %zu bytes arrived", L, levels, (unsigned long long)sent, stream.size()); o.where = where.c_str();
    g_log.ev("deliver", sz, sent);
    LoadOutcome r = checked_load(stream.data(), (size_t)sent, o, nullptr); calls++;
    if (!r.item && r.ref.st == R_ITEM && r.refused == 0) fail("C19", "nesting-within-limit-rejected", where + fmt(": input nested %u <= L levels deep was not decoded (code %d at %llu)", r.ref.max_depth, r.code, (unsigned long long)r.position));
    if (!r.item && r.ref.st == R_MEMERROR && r.refused == 0 && (r.code != CBOR_ERR_MEMERROR || r.position != r.ref.pos)) fail("C19", "excess-nesting-wrong-report", where + fmt(": expected MEMERROR just past the head opening level L+1 (offset %llu), got code %d at %llu", (unsigned long long)r.ref.pos, r.code, (unsigned long long)r.position));
    if (r.item) { accepted++; done = true; if (levels > L) fail("C19", "nesting-beyond-limit-accepted", where + fmt(": a chain nested %u levels deep was decoded although the limit is %u", levels, L)); }
    else if (r.ref.st == R_MEMERROR) { rejected_deep++; done = true; }
    else if (!r.nedata) done = true;
  }
  stat_add("nest_calls", calls); stat_add("nest_rejected_beyond_limit", rejected_deep); stat_add("nest_accepted", accepted);
  stat_add(levels + 1 == L ? "depth_L_minus_1" : levels == L ? "depth_L" : levels == L + 1 ? "depth_L_plus_1" : levels >= 4 * L ? "depth_4L_or_more" : "depth_other");
  if (!failed() && sa_live_count() != 0) fail("C19,C04", "nesting-run-leaves-memory", fmt("%llu block(s) remain", (unsigned long long)sa_live_count()));
  g_run.nontrivial = levels + 1 >= L;
}
