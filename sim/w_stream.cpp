// W3 streaming mode — C08 (per-call contract) and C09 (fragmented feeding), also C13's
// "the streaming decoder requests no memory". DESIGN.md §3.5, §3.6, §5.C08, §5.C09.
#include "sim.hpp"
#include "impl.hpp"
#include "recorder.hpp"
#include <queue>

// ------------------------------------------------------------------ generation
static void raw_token(Rng& r, std::vector<uint8_t>& out, bool allow_reserved) {
  // any initial byte; arguments boundary-biased; definite strings carry their payload
  unsigned major = (unsigned)r.below(8);
  unsigned ai;
  switch (r.below(8)) { case 0: ai = 24; break; case 1: ai = 25; break; case 2: ai = 26; break; case 3: ai = 27; break; case 4: ai = 31; break; default: ai = (unsigned)r.below(24); }
  if (allow_reserved && r.chance(1, 12)) ai = (unsigned)r.range(28, 30);
  if (major == 7 && ai < 20 && !allow_reserved) ai = 20 + ai % 4;
  if (major == 7 && ai == 24 && !allow_reserved) ai = 25;
  if ((major == 0 || major == 1 || major == 6) && ai == 31 && !allow_reserved) ai = 0;
  out.push_back((uint8_t)((major << 5) | ai));
  int w = ai == 24 ? 1 : ai == 25 ? 2 : ai == 26 ? 4 : ai == 27 ? 8 : 0;
  uint64_t arg = ai;
  if (w) {
    arg = gen_u64(r);
    if ((major == 2 || major == 3)) arg = gen_len(r, 300);     // payload follows
    if (w < 8) arg &= ((1ull << (8 * w)) - 1);
    for (int i = w - 1; i >= 0; i--) out.push_back((uint8_t)(arg >> (8 * i)));
  }
  if ((major == 2 || major == 3) && ai != 31 && !(ai >= 28)) { std::vector<uint8_t> pl; gen_payload(r.next(), (size_t)arg, 0, pl); out.insert(out.end(), pl.begin(), pl.end()); }
}

static void gen_stream_bytes(Rng& r, std::vector<uint8_t>& out) {
  GenProfile gp; gp.max_depth = 3; gp.max_kids = 3; gp.big_len_cap = 300;
  unsigned style = (unsigned)r.below(10);
  if (style < 4) {                       // concatenation of well-formed items
    unsigned n = (unsigned)r.range(1, 5);
    gp.allow_big = r.chance(1, 30);
    for (unsigned i = 0; i < n; i++) gen_encode(r, gen_mv(r, gp), out);
  } else if (style < 7) {                // raw head sequence, no structure
    unsigned n = (unsigned)r.range(1, 12);
    for (unsigned i = 0; i < n; i++) raw_token(r, out, false);
  } else if (style == 7) {               // ends (or continues) with a reserved / unsupported initial byte
    unsigned n = (unsigned)r.below(5);
    for (unsigned i = 0; i < n; i++) raw_token(r, out, false);
    static const uint8_t RES[] = {0x1c, 0x1d, 0x1e, 0x1f, 0x3c, 0x3f, 0x5c, 0x5e, 0x7c, 0x7e, 0x9c, 0x9e, 0xbc, 0xbe, 0xdc, 0xdf, 0xe0, 0xe1, 0xf0, 0xf3, 0xf8, 0xfc, 0xfd, 0xfe};
    out.push_back(r.chance(1, 2) ? RES[r.below(sizeof RES)] : (uint8_t)r.range(0xe0, 0xf3));
    unsigned m = (unsigned)r.below(3); for (unsigned i = 0; i < m; i++) out.push_back((uint8_t)r.below(256));
  } else if (style == 8) {               // a declared string length far beyond what will ever arrive
    unsigned n = (unsigned)r.below(3);
    for (unsigned i = 0; i < n; i++) raw_token(r, out, false);
    bool text = r.chance(1, 2); bool w8 = r.chance(3, 4);
    out.push_back((uint8_t)((text ? 0x60 : 0x40) | (w8 ? 27 : 26)));
    uint64_t len;
    if (w8) { static const uint64_t H[] = {~0ull, ~0ull - 1, ~0ull - 7, ~0ull - 8, ~0ull - 9, ~0ull - 10, ~0ull - 16, 1ull << 63, (1ull << 63) - 1, 1ull << 32, 1ull << 48, 0xfffffffffffffff0ull}; len = r.chance(3, 4) ? H[r.below(sizeof H / sizeof H[0])] : (r.next() | (1ull << 62)); }
    else { static const uint64_t H[] = {0xffffffffu, 0xfffffffeu, 0x80000000u, 0x10000u, 100000}; len = H[r.below(5)]; }
    for (int i = (w8 ? 7 : 3); i >= 0; i--) out.push_back((uint8_t)(len >> (8 * i)));
    unsigned m = (unsigned)r.below(24); for (unsigned i = 0; i < m; i++) out.push_back((uint8_t)r.below(256));
  } else {                               // every initial byte reachable: one arbitrary byte + argument bytes
    unsigned n = (unsigned)r.range(1, 6);
    for (unsigned i = 0; i < n; i++) raw_token(r, out, i + 1 == n);
  }
  if (out.empty()) out.push_back(0);
}

static J cuts_json(const std::vector<uint64_t>& c) { J a = J::arr(); for (auto v : c) a.push(v); return a; }

J gen_stream(const std::string& prop, uint64_t run_seed, const std::string& tier) {
  (void)tier;
  Rng g(run_seed, "gen"), net(run_seed, "net"), kn(run_seed, "knobs");
  J plan = J::obj(); J knobs = J::obj();
  if (g.chance(1, 150)) {
    // single calls on buffers longer than 2^32 bytes (an mmap'ed file, say): one head at the start of a sparse 8 GiB region
    std::vector<uint8_t> head; raw_token(g, head, false); if (head.size() > 9) head.resize(9);
    if (g.chance(1, 2)) {   // a definite string whose head + payload lands on or next to a multiple of 2^32
      bool text = g.chance(1, 2); uint64_t total = ((uint64_t)g.range(1, 1) << 32) + g.below(5) - 2; bool w8 = g.chance(1, 2);
      uint64_t hl = w8 ? 9 : 5; uint64_t len = total - hl; if (!w8 && len > 0xffffffffull) { w8 = true; hl = 9; len = total - 9; }
      head.clear(); head.push_back((uint8_t)((text ? 0x60 : 0x40) | (w8 ? 27 : 26))); for (int i = (w8 ? 7 : 3); i >= 0; i--) head.push_back((uint8_t)(len >> (8 * i)));
    }
    J h = J::obj(); h.set("hex", to_hex(head)); J sizes = J::arr();
    for (int i = 0; i < 12; i++) { uint64_t base = (uint64_t)g.range(1, 1) << 32; sizes.push(g.chance(1, 3) ? base + g.below(12) : g.chance(1, 2) ? base + g.below(70000) : base - 1 - g.below(12)); }
    sizes.push(((uint64_t)1 << 32) + 5); sizes.push(((uint64_t)1 << 32)); sizes.push(((uint64_t)1 << 33) + g.below(10));
    h.set("sizes", sizes); plan.set("huge", h); plan.set("conns", J::arr());
    knobs.set("be", (uint64_t)BE_DIRECT); plan.set("knobs", knobs);
    return plan;
  }
  knobs.set("buf", kn.below(3)); knobs.set("replay", kn.below(2)); knobs.set("empty_call", kn.chance(1, 4) ? 1 : 0);
  knobs.set("be", prop == "C13" ? kn.below(3) : (uint64_t)BE_DIRECT);
  knobs.set("fpmode", gen_fpmode(kn));   // the calling thread's floating-point environment: FTZ/DAZ in a quarter of the runs, a directed rounding mode in a quarter
  plan.set("knobs", knobs);
  J conns = J::arr();
  unsigned nstreams = (unsigned)g.range(1, 3);
  for (unsigned s = 0; s < nstreams; s++) {
    std::vector<uint8_t> bytes; gen_stream_bytes(g, bytes);
    std::string hex = to_hex(bytes);
    size_t len = bytes.size();
    // token boundaries for biased cuts
    std::vector<uint64_t> bounds; { size_t off = 0; while (off < len) { Tok t = ref_tok(bytes.data() + off, len - off); if (t.st != TS_OK) break; off += (size_t)t.total_len; bounds.push_back(off); } }
    unsigned style = (unsigned)net.below(7);
    auto add_conn = [&](const std::vector<uint64_t>& cuts, bool with_close) {
      J c = J::obj(); c.set("hex", hex); c.set("cuts", cuts_json(cuts));
      J d = J::arr(); for (size_t i = 0; i <= cuts.size(); i++) d.push(net.below(4) == 0 ? net.below(50) : net.below(3)); c.set("delays", d);
      if (with_close) c.set("close", net.below(len + 1));
      conns.push(c);
    };
    bool closing = net.chance(1, 4);
    if (style == 0 && len <= 24 && len >= 2) { for (uint64_t c = 1; c < len; c++) add_conn({c}, false); }        // every single cut point
    else if (style == 1 && len <= 600) { std::vector<uint64_t> cuts(len, 1); add_conn(cuts, closing); }              // byte at a time
    else if (style == 2) { uint64_t m = net.range(2, 17); std::vector<uint64_t> cuts(len / m + 1, m); add_conn(cuts, closing); }   // MTU-like
    else if (style == 3 && !bounds.empty()) {                                                                          // cuts on / next to item boundaries and inside heads
      std::vector<uint64_t> abs; for (auto b : bounds) { int64_t d = (int64_t)net.below(5) - 2; int64_t v = (int64_t)b + d; if (v > 0 && (uint64_t)v < len) abs.push_back((uint64_t)v); }
      std::sort(abs.begin(), abs.end()); abs.erase(std::unique(abs.begin(), abs.end()), abs.end());
      std::vector<uint64_t> cuts; uint64_t prev = 0; for (auto a : abs) { cuts.push_back(a - prev); prev = a; }
      add_conn(cuts, closing);
    } else if (style == 4) { add_conn({}, closing); }                                                                  // one shot
    else { std::vector<uint64_t> cuts; uint64_t left = len; while (left > 0 && cuts.size() < 64) { uint64_t c = net.range(1, std::max<uint64_t>(1, std::min<uint64_t>(left, net.chance(1, 3) ? 3 : 40))); cuts.push_back(c); left -= c; } add_conn(cuts, closing); }
  }
  plan.set("conns", conns);
  return plan;
}

// ------------------------------------------------------------------ execution
namespace {
struct Conn {
  std::vector<uint8_t> stream; std::vector<uint64_t> cuts, delays;
  uint64_t deliver_total = 0;      // bytes that will arrive before close
  std::vector<uint8_t> buf;        // client buffer (arrived, possibly compacted)
  uint64_t base = 0;               // stream offset of buf[0] (compaction)
  uint64_t arrived = 0, off = 0;   // stream offsets
  uint64_t wait_for = 0;           // bytes required (from off) before the next call
  bool stopped = false, errored = false, waiting = false;
  uint64_t calls = 0, fragments = 0, nedata = 0, next_frag = 0, sent = 0;
  std::vector<RecEv> history;
};
struct Event { uint64_t at, seq; int conn; bool operator>(const Event& o) const { return at != o.at ? at > o.at : seq > o.seq; } };

struct WindowSample { std::vector<uint8_t> bytes; int status; size_t read, required; bool has_ev; RecEv ev; };
struct Exec {
  int buf_policy = 0; bool replay = false, empty_call = false;
  Recorder rec;
  std::vector<WindowSample> samples;     // windows decoded earlier, decoded again after everything else has happened (no state between calls)

  // one decoder call with the C08 oracle. Returns false when the client must stop.
  bool call(Conn& c, int ci) {
    uint64_t avail = c.arrived - c.off;
    const uint8_t* win; uint8_t* owned = nullptr;
    if (buf_policy == 2) { owned = (uint8_t*)malloc(avail); if (avail) memcpy(owned, c.buf.data() + (c.off - c.base), avail); win = owned; }
    else win = c.buf.data() + (c.off - c.base);
    static const uint8_t dummy = 0;
    if (win == nullptr) win = &dummy;     // empty vector: any non-NULL pointer with length 0
    uint64_t req_before = sa_total_requests();
    rec.begin(win, avail);
    c.calls++; stat_add("decoder_calls");
    struct cbor_decoder_result res = cbor_stream_decode(win, avail, recorder_callbacks(), &rec);
    uint64_t req_after = sa_total_requests();
    g_log.ev("decode", ci, (uint64_t)res.status, res.read);
    if (samples.size() < 96 && avail <= 4096 && (c.calls % 3 == 0 || samples.size() < 8)) { WindowSample ws; ws.bytes.assign(win, win + avail); ws.status = (int)res.status; ws.read = res.read; ws.required = res.required; ws.has_ev = rec.evs.size() == 1; if (ws.has_ev) ws.ev = rec.evs[0]; samples.push_back(std::move(ws)); }
    if (req_after != req_before) fail("C08,C13", "stream-decode-allocates", fmt("cbor_stream_decode made %llu allocator request(s)", (unsigned long long)(req_after - req_before)));
    Tok t = ref_tok(win, avail);
    bool cont = true;
    std::string where = fmt("conn %d stream offset %llu, %llu byte(s) buffered, initial byte 0x%02x", ci, (unsigned long long)c.off, (unsigned long long)avail, avail ? win[0] : 0);
    if (c.calls % 4 == 1) {   // the outcome is a function of the buffer alone: the library's own do-nothing callback set must see the same one
      struct cbor_decoder_result r0 = cbor_stream_decode(win, avail, &cbor_empty_callbacks, nullptr);
      if (r0.status != res.status || r0.read != res.read || (res.status == CBOR_DECODER_NEDATA && r0.required != res.required))
        fail("C08", "result-depends-on-callback-set", where + fmt(": status/read/required %d/%zu/%zu with recording callbacks, %d/%zu/%zu with cbor_empty_callbacks", (int)res.status, res.read, res.required, (int)r0.status, r0.read, r0.required));
      if (sa_total_requests() != req_after) fail("C08,C13", "stream-decode-allocates", "cbor_stream_decode with cbor_empty_callbacks made allocator requests");
      stat_add("decoder_calls_with_empty_callbacks");
    }
    if (t.st == TS_RESERVED) {
      stat_add("calls_error");
      if (res.status != CBOR_DECODER_ERROR) fail("C08,C09", "reserved-byte-not-ERROR", where + fmt(": status %d, expected ERROR", (int)res.status));
      else if (res.read != 0) fail("C08", "error-read-nonzero", where + fmt(": ERROR with read=%zu", res.read));
      else if (!rec.evs.empty()) fail("C08,C09", "error-with-callback", where + ": ERROR but a callback was invoked");
      c.errored = true; cont = false;
    } else if (t.st == TS_OK) {
      stat_add("calls_finished");
      if (res.status != CBOR_DECODER_FINISHED) fail("C08,C09", "complete-item-not-FINISHED", where + fmt(": status %d, expected FINISHED", (int)res.status));
      else if ((u128)res.read != t.total_len) fail("C08,C09", "finished-read-wrong", where + fmt(": read=%zu, expected %llu", res.read, (unsigned long long)t.total_len));
      else if (rec.evs.size() != 1) fail("C08,C09", "finished-callback-count", where + fmt(": %zu callbacks invoked, expected exactly 1", rec.evs.size()));
      else {
        RecEv exp = expected_event(t, win); std::string why;
        if (!event_matches(rec.evs[0], exp, why)) fail("C08,C09", "finished-callback-wrong", where + ": " + why);
      }
      if (!failed() && res.status == CBOR_DECODER_FINISHED) {
        c.history.push_back(rec.evs[0]);
        { // the matching low-level encoder must not request memory either (C13), and must stay inside its buffer
          unsigned char eb[16]; memset(eb, 0xEE, sizeof eb); const RecEv& ev = rec.evs[0]; size_t wr = 0; uint64_t rb = sa_total_requests();
          switch (ev.slot) {
            case SL_UINT8: wr = cbor_encode_uint8((uint8_t)ev.arg, eb, 9); break; case SL_UINT16: wr = cbor_encode_uint16((uint16_t)ev.arg, eb, 9); break;
            case SL_UINT32: wr = cbor_encode_uint32((uint32_t)ev.arg, eb, 9); break; case SL_UINT64: wr = cbor_encode_uint64(ev.arg, eb, 9); break;
            case SL_NEGINT8: wr = cbor_encode_negint8((uint8_t)ev.arg, eb, 9); break; case SL_NEGINT16: wr = cbor_encode_negint16((uint16_t)ev.arg, eb, 9); break;
            case SL_NEGINT32: wr = cbor_encode_negint32((uint32_t)ev.arg, eb, 9); break; case SL_NEGINT64: wr = cbor_encode_negint64(ev.arg, eb, 9); break;
            case SL_BSTR: wr = cbor_encode_bytestring_start((size_t)ev.arg, eb, 9); break; case SL_TSTR: wr = cbor_encode_string_start((size_t)ev.arg, eb, 9); break;
            case SL_BSTR_START: wr = cbor_encode_indef_bytestring_start(eb, 9); break; case SL_TSTR_START: wr = cbor_encode_indef_string_start(eb, 9); break;
            case SL_ARRAY: wr = cbor_encode_array_start((size_t)ev.arg, eb, 9); break; case SL_ARRAY_INDEF: wr = cbor_encode_indef_array_start(eb, 9); break;
            case SL_MAP: wr = cbor_encode_map_start((size_t)ev.arg, eb, 9); break; case SL_MAP_INDEF: wr = cbor_encode_indef_map_start(eb, 9); break;
            case SL_TAG: wr = cbor_encode_tag(ev.arg, eb, 9); break; case SL_BOOL: wr = cbor_encode_bool(ev.arg != 0, eb, 9); break;
            case SL_NULL: wr = cbor_encode_null(eb, 9); break; case SL_UNDEF: wr = cbor_encode_undef(eb, 9); break; case SL_BREAK: wr = cbor_encode_break(eb, 9); break;
            case SL_FLOAT2: wr = cbor_encode_half(u2f((uint32_t)ev.arg), eb, 9); break; case SL_FLOAT4: wr = cbor_encode_single(u2f((uint32_t)ev.arg), eb, 9); break;
            case SL_FLOAT8: wr = cbor_encode_double(u2d(ev.arg), eb, 9); break; default: break;
          }
          // the width-generic encoders too
          if (ev.slot >= SL_UINT8 && ev.slot <= SL_UINT64) { unsigned char gb[16]; size_t g = cbor_encode_uint(ev.arg, gb, 9); if (g == 0 || g > 9) fail("C07,C10", "low-level-encoder-length", where + fmt(": cbor_encode_uint returned %zu", g)); }
          if (ev.slot >= SL_NEGINT8 && ev.slot <= SL_NEGINT64) { unsigned char gb[16]; size_t g = cbor_encode_negint(ev.arg, gb, 9); if (g == 0 || g > 9) fail("C07,C10", "low-level-encoder-length", where + fmt(": cbor_encode_negint returned %zu", g)); }
          if (ev.slot == SL_BOOL || ev.slot == SL_NULL || ev.slot == SL_UNDEF) { unsigned char gb[16]; size_t g = cbor_encode_ctrl((uint8_t)(ev.slot == SL_BOOL ? 20 + (ev.arg != 0) : ev.slot == SL_NULL ? 22 : 23), gb, 9); if (g == 0 || g > 2) fail("C07,C10", "low-level-encoder-length", where + fmt(": cbor_encode_ctrl returned %zu", g)); }
          if (sa_total_requests() != rb) fail("C13", "low-level-encoder-allocates", where + fmt(": cbor_encode_* for a '%s' event made allocator requests", slot_name(ev.slot)));
          for (size_t q = 9; q < sizeof eb; q++) if (eb[q] != 0xEE) { fail("C07", "low-level-encoder-writes-past-buffer", where); break; }
          if (wr == 0 || wr > 9) fail("C07,C10", "low-level-encoder-length", where + fmt(": encoder returned %zu", wr));
          stat_add("encoder_calls");
        }
        g_log.ev("event", rec.evs[0].slot, rec.evs[0].arg, hash_bytes(rec.evs[0].payload.data(), rec.evs[0].payload.size()));
        // "does not depend on any byte beyond those it reports as read" + "keeps no state": same head alone, exact window
        if (replay && res.read <= avail) {
          uint8_t* w2 = (uint8_t*)malloc(res.read); memcpy(w2, win, res.read);
          Recorder r2; r2.begin(w2, res.read);
          struct cbor_decoder_result res2 = cbor_stream_decode(w2, res.read, recorder_callbacks(), &r2);
          std::string why;
          if (res2.status != res.status || res2.read != res.read || r2.evs.size() != 1 || !event_matches(r2.evs[0], rec.evs[0], why))
            fail("C08", "result-depends-on-later-bytes-or-state", where + ": decoding exactly the bytes reported as read gives a different result " + why);
          free(w2); stat_add("replayed_calls");
        }
        c.off += res.read;
      } else cont = false;
    } else {  // incomplete
      stat_add("calls_nedata");
      c.nedata++;
      // upper bound: full length of the pending head and payload, as far as the stream determines it
      u128 upper;
      if (t.head_complete) upper = t.total_len;
      else { Tok tf = ref_tok(c.stream.data() + c.off, c.stream.size() - c.off); upper = tf.head_complete ? tf.total_len : (u128)t.head_len; }
      if (res.status != CBOR_DECODER_NEDATA) fail("C08,C09", "incomplete-item-not-NEDATA", where + fmt(": status %d, expected NEDATA", (int)res.status));
      else if (!rec.evs.empty()) fail("C08,C09", "nedata-with-callback", where + ": NEDATA but a callback was invoked");
      else if (res.read != 0) fail("C08", "nedata-read-nonzero", where + fmt(": NEDATA with read=%zu", res.read));
      else if (!(res.required > avail)) fail("C08,C09", "nedata-required-not-beyond-buffer", where + fmt(": NEDATA with required=%zu although %llu byte(s) are already buffered (a client waiting for `required` bytes never progresses)", res.required, (unsigned long long)avail));
      else if ((u128)res.required > upper) fail("C08,C09", "nedata-required-too-large", where + fmt(": required=%zu exceeds the pending item's full length", res.required));
      if (!failed() && res.status == CBOR_DECODER_NEDATA) { c.wait_for = res.required; c.waiting = true; }
      cont = false;
      if (failed() || g_run.foreign_seen) c.stopped = true;
    }
    if (owned) free(owned);
    if (failed()) c.stopped = true;
    return cont && !failed();
  }

  void pump(Conn& c, int ci) {
    // client loop: decode while enough is buffered
    uint64_t guard = 0;
    while (!c.stopped && !c.errored) {
      uint64_t avail = c.arrived - c.off;
      if (c.waiting && avail < c.wait_for) break;
      if (!c.waiting && avail == 0) break;
      c.waiting = false;
      if (!call(c, ci)) break;
      if (buf_policy == 1 && c.off > c.base) { c.buf.erase(c.buf.begin(), c.buf.begin() + (c.off - c.base)); c.base = c.off; }
      if (++guard > 20000000) { fail("C09", "client-livelock", "client made 100000 decoder calls on one delivery"); break; }
    }
  }
};
}  // namespace

static void exec_stream_huge(const J& h) {
  uint8_t* R = huge_region(); if (!R) { stat_add("huge_region_unavailable"); return; }
  std::vector<uint8_t> head = from_hex(h.gets("hex")); if (head.empty() || head.size() > 4096) return;
  memcpy(R, head.data(), head.size());
  g_rec_no_payload = true;
  for (size_t i = 0; i < h.at("sizes").size() && !failed(); i++) {
    uint64_t n = h.at("sizes").iu(i); if (n > HUGE_REGION_BYTES - 16) n = HUGE_REGION_BYTES - 16; if (n < head.size()) continue;
    Recorder rec; rec.begin(R, (size_t)n);
    uint64_t rb = sa_total_requests();
    struct cbor_decoder_result res = cbor_stream_decode(R, (size_t)n, recorder_callbacks(), &rec);
    Tok t = ref_tok(R, (size_t)n);
    std::string where = fmt("one call on a %llu-byte buffer (2^32 %+lld) starting with [%s]", (unsigned long long)n, (long long)(n - ((uint64_t)1 << 32)), to_hex(head).c_str());
    g_log.ev("decode-huge", n, (uint64_t)res.status, res.read);
    if (sa_total_requests() != rb) fail("C08,C13", "stream-decode-allocates", where);
    if (t.st == TS_RESERVED) { if (res.status != CBOR_DECODER_ERROR || res.read != 0 || !rec.evs.empty()) fail("C08,C09", "reserved-byte-not-ERROR", where + fmt(": status %d", (int)res.status)); }
    else if (t.st == TS_OK) {
      if (res.status != CBOR_DECODER_FINISHED) fail("C08,C09", "complete-item-not-FINISHED", where + fmt(": status %d (required %zu), the item occupies %llu bytes", (int)res.status, res.required, (unsigned long long)t.total_len));
      else if ((u128)res.read != t.total_len) fail("C08,C09", "finished-read-wrong", where + fmt(": read=%zu, expected %llu", res.read, (unsigned long long)t.total_len));
      else if (rec.evs.size() != 1) fail("C08,C09", "finished-callback-count", where + fmt(": %zu callbacks invoked, expected exactly 1", rec.evs.size()));
      else { RecEv exp = expected_event(t, R); std::string why; if (!event_matches(rec.evs[0], exp, why)) fail("C08,C09", "finished-callback-wrong", where + ": " + why); }
    } else {
      u128 upper = t.head_complete ? t.total_len : (u128)t.head_len;
      if (res.status != CBOR_DECODER_NEDATA) fail("C08,C09", "incomplete-item-not-NEDATA", where + fmt(": status %d", (int)res.status));
      else if (!rec.evs.empty() || res.read != 0) fail("C08,C09", "nedata-with-callback", where);
      else if (!(res.required > n) || (u128)res.required > upper) fail("C08,C09", "nedata-required-not-beyond-buffer", where + fmt(": required=%zu", res.required));
    }
    stat_add("huge_buffer_calls");
  }
  g_rec_no_payload = false;
  memset(R, 0, head.size());
  g_run.nontrivial = true;
}

void exec_stream(const J& plan) {
  if (!g_task_mode) sa_reset(knobs_alloc(plan));
  if (plan.has("huge")) { if (!g_task_mode) exec_stream_huge(plan.at("huge")); return; }
  Exec X; const J& kn = plan.at("knobs");
  X.buf_policy = (int)kn.getu("buf"); X.replay = kn.getu("replay") != 0; X.empty_call = kn.getu("empty_call") != 0;
  const J& jc = plan.at("conns");
  std::vector<Conn> conns(jc.size());
  std::priority_queue<Event, std::vector<Event>, std::greater<Event>> q;
  uint64_t seq = 0, now = 0;
  for (size_t i = 0; i < jc.size(); i++) {
    Conn& c = conns[i]; const J& j = jc[i];
    c.stream = from_hex(j.gets("hex"));
    for (size_t k = 0; k < j.at("cuts").size(); k++) c.cuts.push_back(std::max<uint64_t>(1, j.at("cuts").iu(k)));
    for (size_t k = 0; k < j.at("delays").size(); k++) c.delays.push_back(j.at("delays").iu(k) % 1000);
    c.deliver_total = j.has("close") ? std::min<uint64_t>(j.getu("close"), c.stream.size()) : c.stream.size();
    if (X.empty_call) { c.waiting = false; uint64_t before = c.calls; X.call(c, (int)i); (void)before; }   // a call on an empty buffer must ask for more
    q.push(Event{c.delays.empty() ? 0 : c.delays[0], seq++, (int)i});
  }
  uint64_t steps = 0;
  while (!q.empty() && !failed()) {
    Event e = q.top(); q.pop(); now = e.at;
    Conn& c = conns[e.conn];
    if (c.sent >= c.deliver_total) continue;   // closed
    uint64_t sz = c.next_frag < c.cuts.size() ? c.cuts[c.next_frag] : (c.deliver_total - c.sent);
    if (sz > c.deliver_total - c.sent) sz = c.deliver_total - c.sent;
    c.buf.insert(c.buf.end(), c.stream.begin() + c.sent, c.stream.begin() + c.sent + sz);
    c.sent += sz; c.arrived = c.sent; c.fragments++; c.next_frag++;
    g_log.ev("deliver", e.conn, sz, now); stat_add("fragments");
    X.pump(c, e.conn);
    if (c.sent < c.deliver_total) { uint64_t d = c.next_frag < c.delays.size() ? c.delays[c.next_frag] : 1; q.push(Event{now + d, seq++, e.conn}); }
    if (++steps > 50000000) { fail("C09", "simulation-step-budget", "step budget exceeded"); break; }
  }
  g_run.sim_time = now;
  // no state between calls: the same windows decoded again, all at ONE address (a client with a fixed receive buffer), first in the
  // order they were seen, then by increasing size - whatever an earlier call may have remembered about "this buffer" is stale by then
  {
    std::vector<uint8_t> fixed_store(4096 + 16); uint8_t* fixed = fixed_store.data();   // one address for the whole pass; local, because stream runs may be tasks of a W4 plan
    std::vector<size_t> order; for (size_t i = 0; i < X.samples.size(); i++) order.push_back(i);
    for (int pass = 0; pass < 2 && !failed(); pass++) {
      if (pass == 1) std::stable_sort(order.begin(), order.end(), [&](size_t a, size_t b) { return X.samples[a].bytes.size() < X.samples[b].bytes.size(); });
      for (size_t oi = 0; oi < order.size() && !failed(); oi++) {
        WindowSample& ws = X.samples[order[oi]];
        if (!ws.bytes.empty()) memcpy(fixed, ws.bytes.data(), ws.bytes.size());
        Recorder r2; r2.begin(fixed, ws.bytes.size());
        struct cbor_decoder_result res2 = cbor_stream_decode(fixed, ws.bytes.size(), recorder_callbacks(), &r2);
        std::string why; bool same = (int)res2.status == ws.status && res2.read == ws.read && (ws.status != CBOR_DECODER_NEDATA || res2.required == ws.required) && (r2.evs.size() == 1) == ws.has_ev && (!ws.has_ev || event_matches(r2.evs[0], ws.ev, why));
        if (!same) fail("C08,C09", "decoder-keeps-state-between-calls", fmt("a %zu-byte window [%s] decoded earlier in the run gives a different result when decoded again later (status %d/%d, read %zu/%zu, required %zu/%zu) %s", ws.bytes.size(), to_hex(ws.bytes.data(), std::min<size_t>(ws.bytes.size(), 16)).c_str(), ws.status, (int)res2.status, ws.read, res2.read, ws.required, res2.required, why.c_str()));
        stat_add("windows_decoded_again");
      }
    }
  }
  // history oracle (C09): what a client must have received for the delivered prefix
  uint64_t total_frag = 0, total_ned = 0; bool multi = false;
  for (size_t i = 0; i < conns.size() && !failed(); i++) {
    Conn& c = conns[i];
    total_frag += c.fragments; total_ned += c.nedata; if (c.fragments >= 2) multi = true;
    std::vector<RecEv> exp; uint64_t off = 0; bool exp_error = false; uint64_t ntok = 0;
    const uint8_t* p = c.stream.data(); uint64_t n = c.deliver_total;
    while (off < n) { Tok t = ref_tok(p + off, n - off); if (t.st == TS_RESERVED) { exp_error = true; break; } if (t.st != TS_OK) break; exp.push_back(expected_event(t, p + off)); off += (uint64_t)t.total_len; ntok++; }
    std::string where = fmt("conn %zu (%llu bytes delivered in %llu fragment(s))", i, (unsigned long long)n, (unsigned long long)c.fragments);
    if (c.history.size() != exp.size()) { fail("C09", "event-count", where + fmt(": client received %zu events, the stream tokenises into %zu", c.history.size(), exp.size())); break; }
    for (size_t k = 0; k < exp.size(); k++) { std::string why; RecEv g = c.history[k]; RecEv e = exp[k]; g.ptr_off = e.ptr_off = 0; if (!event_matches(g, e, why)) { fail("C09", "event-differs", where + fmt(": event %zu: ", k) + why); break; } }
    if (failed()) break;
    if (c.off != off) { fail("C09", "client-offset", where + fmt(": client consumed %llu bytes, expected %llu", (unsigned long long)c.off, (unsigned long long)off)); break; }
    if (exp_error != c.errored) { fail("C09", "error-status", where + (exp_error ? ": stream has a reserved initial byte but the client saw no ERROR" : ": client saw ERROR on a clean stream")); break; }
    if (off == n && !exp_error && c.waiting && n > 0 && c.wait_for > 0 && !X.empty_call) { fail("C09", "wait-at-item-boundary", where + ": stream ended on an item boundary but the client is still waiting for bytes"); break; }
    if (c.calls > ntok + c.fragments + 3) { fail("C09", "too-many-calls", where + fmt(": %llu decoder calls for %llu tokens and %llu fragments", (unsigned long long)c.calls, (unsigned long long)ntok, (unsigned long long)c.fragments)); break; }
    stat_add("tokens_delivered", ntok);
  }
  stat_add("nedata_waits", total_ned);
  stat_max("max_sim_time", now);
  if (!g_task_mode) sa_check_integrity();
  if (sa_live_count_mine() != 0) fail("C08,C13", "stream-decode-leaves-memory", "blocks obtained from the allocator remain after streaming runs");
  g_run.nontrivial = g_run.prop == "C09" ? (multi && total_ned >= 1) : (total_frag >= 1);
}
