// W4-RO — read-only operations on a write-protected tree (C18). DESIGN.md §5.C18.
//  mode 0 (plain flavours, -O0 and -O2): the tree lives in arena 0, which is mprotect()ed read-only while every
//         read-only operation runs on every node; a store, even a transient one, faults and is reported with the operation.
//  mode 1 (tsan flavour): 2-8 reader tasks run the same battery on one shared tree; a reader's store races with the others.
#include "hist.hpp"
#include "sched.hpp"
#include "protect.hpp"

J gen_ro(const std::string& prop, uint64_t run_seed, const std::string& tier) {
  (void)prop; (void)tier;
  Rng g(run_seed, "gen"), kn(run_seed, "knobs"), sc(run_seed, "sched");
  J plan = J::obj(); J knobs = J::obj();
  knobs.set("be", (uint64_t)BE_ARENA); knobs.set("rm", kn.below(2)); knobs.set("maxreq", (uint64_t)1 << 20);
  knobs.set("readers", kn.range(2, 8)); knobs.set("preempt", 1000); knobs.set("stack", (uint64_t)1 << 20);
  knobs.set("fpmode", gen_fpmode(kn));   // the calling thread's floating-point environment: FTZ/DAZ in a quarter of the runs, a directed rounding mode in a quarter
  plan.set("knobs", knobs);
  J ops = J::arr(); Rng nofault(0, "none");
  unsigned n = (unsigned)g.range(3, 30);
  gen_hist_ops(g, nofault, "C03", n, false, ops);
  // make tags and nesting likely: wrap something in a tag, load a random tree
  if (g.chance(2, 3)) { HOp t; t.code = OP_BUILD_TAG; t.a = g.next() >> 8; t.c = gen_u64(g); ops.push(hop_to_json(t)); }
  if (g.chance(1, 2)) { HOp l; l.code = OP_LOAD_RAW; l.c = g.next(); if (g.chance(1, 6)) l.d = 4; else if (g.chance(1, 6)) l.d = 8; ops.push(hop_to_json(l)); }   // d=4: strings beyond 64 KiB, d=8: deep chain
  if (g.chance(1, 2)) { HOp a; a.code = OP_NEW_INDEF_ARRAY; ops.push(hop_to_json(a)); for (int i = 0; i < 3; i++) { HOp p; p.code = OP_PUSH; p.a = SEL_LAST; p.b = g.next() >> 8; ops.push(hop_to_json(p)); } }
  plan.set("ops", ops);
  plan.set("sched_seed", sc.next() >> 1);
  return plan;
}

namespace {
// the read-only API: everything that inspects an item without handing out a new reference
struct Battery {
  uint64_t digest = 0; uint64_t calls = 0; bool describe_ctx = true;
  void mix(uint64_t v) { digest = hash_comb(digest, v); calls++; }
  void ctx(const char* op, const cbor_item_t* it) {
    if (!describe_ctx) return;
    static const char* tn[] = {"uint", "negint", "bytestring", "string", "array", "map", "tag", "float_ctrl"};
    char b[120]; snprintf(b, sizeof b, "%s on a %s item", op, tn[(int)it->type & 7]); prot_set_ctx(b);
  }
  void node(const cbor_item_t* it, bool with_alloc) {
    ctx("cbor_typeof/isa/is predicates", it);
    mix((uint64_t)cbor_typeof(it)); mix(cbor_isa_uint(it)); mix(cbor_isa_negint(it)); mix(cbor_isa_bytestring(it)); mix(cbor_isa_string(it)); mix(cbor_isa_array(it)); mix(cbor_isa_map(it));
    mix(cbor_isa_tag(it)); mix(cbor_isa_float_ctrl(it)); mix(cbor_is_int(it)); mix(cbor_is_float(it)); mix(cbor_is_bool(it)); mix(cbor_is_null(it)); mix(cbor_is_undef(it));
    ctx("cbor_refcount", it); mix(cbor_refcount(it));
    switch (cbor_typeof(it)) {
      case CBOR_TYPE_UINT: case CBOR_TYPE_NEGINT:
        ctx("integer getters", it); mix((uint64_t)cbor_int_get_width(it)); mix(cbor_get_int(it));
        switch (cbor_int_get_width(it)) { case CBOR_INT_8: mix(cbor_get_uint8(it)); break; case CBOR_INT_16: mix(cbor_get_uint16(it)); break; case CBOR_INT_32: mix(cbor_get_uint32(it)); break; default: mix(cbor_get_uint64(it)); }
        break;
      case CBOR_TYPE_FLOAT_CTRL:
        ctx("float/ctrl getters", it); mix((uint64_t)cbor_float_get_width(it)); mix(cbor_float_ctrl_is_ctrl(it));
        if (cbor_float_ctrl_is_ctrl(it)) { mix(cbor_ctrl_value(it)); if (cbor_is_bool(it)) mix(cbor_get_bool(it)); }
        else { double d = cbor_float_get_float(it); mix(d != d ? 1 : d2u(d)); if (cbor_float_get_width(it) == CBOR_FLOAT_16) { float f = cbor_float_get_float2(it); mix(f != f ? 1 : f2u(f)); } else if (cbor_float_get_width(it) == CBOR_FLOAT_32) { float f = cbor_float_get_float4(it); mix(f != f ? 1 : f2u(f)); } else { double e = cbor_float_get_float8(it); mix(e != e ? 1 : d2u(e)); } }
        break;
      case CBOR_TYPE_BYTESTRING:
        ctx("bytestring getters", it); mix(cbor_bytestring_is_definite(it)); mix(cbor_bytestring_is_indefinite(it)); mix(cbor_bytestring_length(it));
        if (cbor_bytestring_is_definite(it)) mix(hash_bytes(cbor_bytestring_handle(it), cbor_bytestring_length(it))); else { mix(cbor_bytestring_chunk_count(it)); mix(cbor_bytestring_chunks_handle(it) != nullptr); }
        break;
      case CBOR_TYPE_STRING:
        ctx("string getters", it); mix(cbor_string_is_definite(it)); mix(cbor_string_is_indefinite(it)); mix(cbor_string_length(it)); mix(cbor_string_codepoint_count(it));
        if (cbor_string_is_definite(it)) mix(hash_bytes(cbor_string_handle(it), cbor_string_length(it))); else { mix(cbor_string_chunk_count(it)); mix(cbor_string_chunks_handle(it) != nullptr); }
        break;
      case CBOR_TYPE_ARRAY: ctx("array getters", it); mix(cbor_array_size(it)); mix(cbor_array_allocated(it)); mix(cbor_array_is_definite(it)); mix(cbor_array_is_indefinite(it)); mix(cbor_array_handle(it) != nullptr); break;
      case CBOR_TYPE_MAP: ctx("map getters", it); mix(cbor_map_size(it)); mix(cbor_map_allocated(it)); mix(cbor_map_is_definite(it)); mix(cbor_map_is_indefinite(it)); mix(cbor_map_handle(it) != nullptr); break;
      case CBOR_TYPE_TAG: ctx("cbor_tag_value", it); mix(cbor_tag_value(it)); break;
    }
    ctx("cbor_serialized_size", it);
    size_t sz = cbor_serialized_size(it); mix(sz);
    if (sz > 0 && sz <= ((size_t)1 << 20)) {
      ctx("cbor_serialize", it);
      unsigned char* buf = (unsigned char*)malloc(sz);
      size_t wr = cbor_serialize(it, buf, sz); mix(wr); mix(hash_bytes(buf, wr));
      ctx("cbor_serialize_<type>", it);
      size_t wt = impl_serialize_typed(it, buf, sz); mix(wt); mix(hash_bytes(buf, wt));
      free(buf);
      if (with_alloc) {
        ctx("cbor_serialize_alloc", it);
        unsigned char* b2 = nullptr; size_t bs = 0; size_t w2 = cbor_serialize_alloc(it, &b2, &bs); mix(w2); mix(bs);
        if (b2) { mix(hash_bytes(b2, w2)); sa_client_free(b2); }
      }
    }
  }
};
}  // namespace

void exec_ro(const J& plan) {
  const J& kn = plan.at("knobs");
  SaKnobs ak = knobs_alloc(plan);
#ifdef SIM_FLAVOUR_TSAN
  const bool tsan_mode = true; ak.backend = BE_DIRECT;
#else
  const bool tsan_mode = false; ak.backend = BE_ARENA;
#endif
  sa_reset(ak);
  Hist H; H.light = true;     // no read-only call may touch the tree before it is sealed: a lazily filled cache must still be empty then
  const J& ops = plan.at("ops");
  for (size_t i = 0; i < ops.size() && !failed() && !g_run.foreign_seen; i++) {
    HOp o = hop_from_json(ops[i]); o.fk = F_NONE;
    switch (o.code) { case OP_SERIALIZE_ALLOC: case OP_SERIALIZE: case OP_SIZE: case OP_DESCRIBE: case OP_GETTERS: case OP_COPY: case OP_GET: case OP_TAG_ITEM: continue; default: break; }
    H.run_op(o);
  }
  if (failed() || g_run.foreign_seen) return;
  // every node reachable from a client handle whose tree may legally be traversed (no item-less tag)
  std::vector<const cbor_item_t*> nodes; std::set<const cbor_item_t*> seen;
  for (int id : H.pool) {
    const HNode& n = H.nodes[id];
    bool ok = true; { std::vector<int> st{id}; std::set<int> vis; while (!st.empty() && ok) { int x = st.back(); st.pop_back(); if (!vis.insert(x).second) continue; const HNode& m = H.nodes[x]; if (m.kind == MK_TAG && m.kids.empty()) ok = false; int prev = -1; for (int k : m.kids) { if (k != prev) st.push_back(k); prev = k; } if (vis.size() > 5000) ok = false; } }
    if (!ok || !H.small_enough(id, (uint64_t)4 << 20, 300000)) continue;   // the battery walks the whole expansion of every node: keep it bounded
    std::vector<const void*> blocks; std::vector<const cbor_item_t*> tn; impl_tree_blocks(n.impl, blocks, tn);
    for (auto* t : tn) if (seen.insert(t).second) nodes.push_back(t);
  }
  if (nodes.size() > 3000) nodes.resize(3000);
  std::vector<BlockImage> before = sa_snapshot();
  uint64_t calls = 0;
  if (!tsan_mode) {
    sa_set_arena(1);
    sa_arena_protect(0, true);
    Battery B; for (auto* it : nodes) B.node(it, true);
    prot_set_ctx("");
    sa_arena_protect(0, false);
    sa_set_arena(0);
    calls = B.calls;
    g_log.ev("battery", B.digest, B.calls);
  } else {
    size_t readers = (size_t)kn.getu("readers", 3); if (readers < 2) readers = 2; if (readers > 8) readers = 8;
    std::vector<Battery> Bs(readers); std::vector<std::function<void()>> bodies;
    g_task_mode = true;
    for (size_t r = 0; r < readers; r++) bodies.push_back([&, r]() { Bs[r].describe_ctx = false; for (auto* it : nodes) { sched_point(SP_API); Bs[r].node(it, true); } });
    SchedConfig cfg; cfg.stack_bytes = (size_t)kn.getu("stack", 1 << 20); cfg.preempt_permille = (unsigned)kn.getu("preempt", 1000); cfg.rng_seed = plan.getu("sched_seed");
    SchedResult sr = sched_run(cfg, bodies);
    g_task_mode = false;
    for (size_t r = 1; r < readers && !failed(); r++) if (Bs[r].digest != Bs[0].digest) fail("C18,C17", "concurrent-readers-disagree", fmt("reader %zu saw different results than reader 1 on the same shared tree", r + 1));
    calls = Bs[0].calls * readers;
    g_logs[0].ev("readers", Bs[0].digest, readers, sr.schedule_hash);
    stat_add("reader_tasks", readers); stat_add("reader_switches", sr.switches);
  }
  // bit-for-bit untouched afterwards as well (the protection / TSan see the instants in between)
  std::vector<BlockImage> after = sa_snapshot();
  if (after.size() != before.size()) fail("C18", "read-only-ops-change-live-set", fmt("%zu live blocks before the read-only battery, %zu after", before.size(), after.size()));
  else for (size_t i = 0; i < after.size(); i++) if (after[i].id != before[i].id || after[i].bytes != before[i].bytes) { fail("C18", "read-only-ops-modify-tree", fmt("block #%llu differs after the read-only battery", (unsigned long long)after[i].id)); break; }
  stat_add("ro_calls", calls); stat_add("ro_nodes", nodes.size()); stat_max("max_ro_nodes", nodes.size());
  bool nt = nodes.size() >= 2 && calls >= 10;
  std::vector<uint64_t> order; for (int i = 0; i < 64; i++) order.push_back((uint64_t)i * 7);
  H.light = false;
  if (!failed() && !g_run.foreign_seen) H.drop_all(order);
  g_run.nontrivial = nt;
}
