#include "protect.hpp"
#include "simalloc.hpp"
#include <link.h>
#include <dlfcn.h>
#include <signal.h>
#include <sys/mman.h>
#include <unistd.h>
#include <cstdio>
#include <cstring>
#include <cstdlib>

int sched_guard_owner(const void* addr);
int sched_cur();

namespace {
char g_ctx[256] = "";
uintptr_t g_lib_lo = 0, g_lib_hi = 0, g_lib_base = 0; bool g_lib_found = false, g_lib_ro = false;
void (*g_emit)(const char*) = nullptr;

int phdr_cb(struct dl_phdr_info* info, size_t, void*) {
  if (!info->dlpi_name || !strstr(info->dlpi_name, "libcbor_sim.so")) return 0;
  long pg = sysconf(_SC_PAGESIZE);
  for (int i = 0; i < info->dlpi_phnum; i++) {
    const ElfW(Phdr)& ph = info->dlpi_phdr[i];
    if (ph.p_type == PT_LOAD && (ph.p_flags & PF_W)) {
      uintptr_t lo = info->dlpi_addr + ph.p_vaddr, hi = lo + ph.p_memsz;
      g_lib_lo = lo & ~((uintptr_t)pg - 1); g_lib_hi = (hi + (uintptr_t)pg - 1) & ~((uintptr_t)pg - 1); g_lib_base = info->dlpi_addr; g_lib_found = true;
    }
  }
  return 1;
}

void handler(int sig, siginfo_t* si, void*) {
  void* addr = si ? si->si_addr : nullptr;
  char buf[512]; int n = 0;
  int owner = sched_guard_owner(addr);
  if (owner >= 0) n = snprintf(buf, sizeof buf, "\nPROTECTION-FAULT stack-overflow:%.80s detail=native stack of simulated task %d exhausted (guard page hit)\n", g_ctx, owner);
  else if (g_lib_found && (uintptr_t)addr >= g_lib_lo && (uintptr_t)addr < g_lib_hi && g_lib_ro) {
    Dl_info di; const char* sym = "?"; if (dladdr(addr, &di) && di.dli_sname) sym = di.dli_sname;
    n = snprintf(buf, sizeof buf, "\nPROTECTION-FAULT library-static-write:%s+0x%lx detail=library code stored to its own static data; task %d during %s\n", sym, (unsigned long)((uintptr_t)addr - g_lib_base), sched_cur(), g_ctx);
  } else if (sa_arena_contains(0, addr)) {
    const BlockInfo* b = sa_find_containing(addr);
    n = snprintf(buf, sizeof buf, "\nPROTECTION-FAULT ro-write:%.80s detail=store into the write-protected tree: block #%llu (%zu bytes) offset %llu task %d\n", g_ctx, b ? (unsigned long long)b->id : 0ull, b ? b->size : (size_t)0, b ? (unsigned long long)((const unsigned char*)addr - b->user) : 0ull, sched_cur());
  }
  if (n > 0) { ssize_t w = write(2, buf, (size_t)n); (void)w; }
  if (g_emit) g_emit(sig == SIGSEGV ? "SIGSEGV" : "SIGBUS");
  if (n > 0) _exit(70);
  signal(sig, SIG_DFL); raise(sig);
}
}  // namespace

void prot_set_ctx(const char* what) { strncpy(g_ctx, what, sizeof g_ctx - 1); g_ctx[sizeof g_ctx - 1] = 0; }
bool prot_lib_available() { if (!g_lib_found) dl_iterate_phdr(phdr_cb, nullptr); return g_lib_found; }
bool prot_lib_statics(bool ro) {
  if (!prot_lib_available()) return false;
  if (mprotect((void*)g_lib_lo, g_lib_hi - g_lib_lo, ro ? PROT_READ : (PROT_READ | PROT_WRITE)) != 0) { perror("mprotect library data"); _exit(2); }
  g_lib_ro = ro; return true;
}
void prot_install_handler(void (*emit)(const char*)) {
  g_emit = emit;
  struct sigaction sa; memset(&sa, 0, sizeof sa); sa.sa_sigaction = handler; sa.sa_flags = SA_SIGINFO | SA_ONSTACK | SA_NODEFER;
  sigaction(SIGSEGV, &sa, nullptr); sigaction(SIGBUS, &sa, nullptr);
}
