// simalloc — the allocator triple the library is given (DESIGN.md §3.3).
#pragma once
#include <cstddef>
#include <cstdint>
#include <vector>
#include <string>

enum Backend { BE_DIRECT = 0, BE_TAG = 1, BE_ARENA = 2 };
enum FaultKind { F_NONE = 0, F_NTH = 1, F_FROM = 2, F_REALLOC_ONLY = 3, F_PROB = 4, F_QUOTA = 5 };
enum { SA_MAX_TASKS = 20 };

struct FaultSpec {
  int kind = F_NONE;
  uint64_t k = 0;      // request index (NTH/FROM), per-mille (PROB), byte budget (QUOTA), realloc index (REALLOC_ONLY)
  uint64_t seed = 0;   // PROB stream
};

struct BlockInfo {
  uint64_t id;
  unsigned char* user;
  size_t size;
  bool live;
  uint8_t origin;   // 0 malloc, 1 realloc, 2 client
  int task;
  int arena;
  uint64_t local;   // per-task sequence number (what the event log records: independent of interleaving)
};

struct OpWindow {
  FaultSpec fault;
  uint64_t refused_injected = 0; uint64_t first_refused = ~0ull;   // injected refusals; request index of the first refusal
  uint64_t requests = 0, refused = 0, mallocs = 0, reallocs = 0, frees = 0, null_frees = 0, realloc_req = 0;
  uint64_t prob_state = 0;
  double min_growth = 1e9;   // smallest new/old size ratio among granted growing reallocs of blocks of >= 64 bytes in this window
  std::vector<uint64_t> allocated, freed;  // block ids born / released in this window (a realloc that moves = free + alloc of a new id)
  std::vector<std::pair<uint64_t, uint64_t>> moved;   // (old id, new id) for reallocs
  bool open = false;
};

struct SaKnobs {
  int backend = BE_DIRECT;
  int realloc_mode = 0;     // 0 natural / always move for arena+direct(move), 1 in place when it fits
  bool pack = false;        // arena: blocks back to back with no gap (a header-less size-class allocator does that)
  int fill = 0xAA;          // what fresh memory contains (any content is legal for an allocator): 0xAA, 0x00, 0xFF
  uint64_t max_request = (uint64_t)64 << 20;  // a single request above this is refused (kind "toolarge")
};

void sa_install();                   // cbor_set_allocs(...) — once per process, before any item exists
void sa_reset(const SaKnobs& k);     // start of a run: drops all state of the previous run
const SaKnobs& sa_knobs();
void sa_begin(const FaultSpec& f);   // open the op window of the current task
OpWindow sa_end();                   // close it and return what happened
OpWindow& sa_window();               // current task's window (open or not)

void sa_compact();                 // quiet point: forget the records of blocks released long ago (no-op while anything is live)
uint64_t sa_live_count();          // all tasks
uint64_t sa_live_count_mine();     // blocks obtained by the current task (== sa_live_count() outside W4)
uint64_t sa_live_bytes();
uint64_t sa_total_requests();        // library requests since reset (all tasks)
const BlockInfo* sa_find(const void* p);           // live block with exactly this user pointer
const BlockInfo* sa_find_containing(const void* p);// live block containing p (arena/debug; linear)
const BlockInfo* sa_by_id(uint64_t id);
std::vector<uint64_t> sa_live_ids();               // sorted
uint64_t sa_live_sig();                            // O(1) signature of the live set (count + xor of hashed ids)
// image of all live blocks: (id, bytes) sorted by id
struct BlockImage { uint64_t id; std::vector<unsigned char> bytes; };
std::vector<BlockImage> sa_snapshot();

// the client's own allocations (handles given to the library, buffers it gets back)
void* sa_client_malloc(size_t n);
void sa_client_free(void* p);
static const int SA_ARENA_HUGE = -7;
void* sa_client_map_huge(size_t n);   // address space only (MAP_NORESERVE), registered as a live client block; nullptr when the mapping is refused. No snapshot while it lives!

// arena control (C18)
void sa_set_arena(int idx);          // which arena new blocks come from (0 or 1)
void sa_arena_protect(int idx, bool readonly);
bool sa_arena_contains(int idx, const void* p);
uint64_t sa_arena_offset(int idx, const void* p);

// end-of-run integrity (canaries, 0xDD fill of released arena blocks). Records violations itself.
void sa_check_integrity();
void sa_set_max_request(uint64_t n);   // widen the single-request cap for the CURRENT task (growth marathons); 0 restores the run's knob
uint64_t sa_max_request();
void sa_set_request_limit(uint64_t n);  // CURRENT task: refuse every request once a window has made this many (0 = no limit)
void sa_set_realloc_limit(uint64_t n);  // CURRENT task: refuse resizes once a window has made this many (0 = no limit); keeps a quadratic growth policy from running for hours             // the cap in force for the current task

// fault accounting for evidence: fired counts per kind since process start
extern uint64_t sa_fired[8];
extern uint64_t sa_fired_toolarge;

extern "C" {
void* sim_malloc(size_t);
void* sim_realloc(void*, size_t);
void sim_free(void*);
}
