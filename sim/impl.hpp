// Access to the implementation under test through its public headers only.
#pragma once
extern "C" {
#include "cbor.h"
}
#include "ref.hpp"
#include "simalloc.hpp"

// width enum -> bytes
static inline int int_width_bytes(cbor_int_width w) { return 1 << (int)w; }

// Read an implementation tree into the value model using public getters and the
// documented handles. Returns false (and sets why) on a structurally impossible tree.
bool impl_to_mv(const cbor_item_t* it, MV& out, std::string& why, int depth = 0);

// Compare implementation tree with a model value. On mismatch returns false and describes where.
bool impl_equals(const cbor_item_t* it, const MV& v, std::string& why, const std::string& path = "$");

// float helpers
static inline uint32_t f2u(float f) { uint32_t u; memcpy(&u, &f, 4); return u; }
static inline float u2f(uint32_t u) { float f; memcpy(&f, &u, 4); return f; }
static inline uint64_t d2u(double d) { uint64_t u; memcpy(&u, &d, 8); return u; }
static inline double u2d(uint64_t u) { double d; memcpy(&d, &u, 8); return d; }

// Children of an item read straight from the public struct layout (data.h), WITHOUT calling any library getter:
// the harness must be able to enumerate a tree without 'warming up' lazily computed state inside it.
void raw_children(const cbor_item_t* it, std::vector<cbor_item_t*>& out);
// everything a client can observe about a tree through the public getters (types, widths, values, lengths, code-point counts, payload
// bytes, definiteness, chunking, member order), folded into one number; NaNs of one width count as equal
uint64_t impl_observables_digest(const cbor_item_t* it);

// All allocator blocks an item owns directly (item struct, data buffer, chunk table), in a fixed order.
void impl_owned_blocks(const cbor_item_t* it, std::vector<const void*>& out);
// ... and recursively for the whole tree (each node once, even if shared)
void impl_tree_blocks(const cbor_item_t* it, std::vector<const void*>& out, std::vector<const cbor_item_t*>& nodes);

// nesting limit / growth factor of the build under test (from the generated configuration.h)
unsigned impl_max_stack();
unsigned impl_growth();
// the per-type public serializer for this item's type (cbor_serialize_uint ... cbor_serialize_float_ctrl)
size_t impl_serialize_typed(const cbor_item_t* it, unsigned char* buf, size_t cap);
