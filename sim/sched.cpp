#include "sched.hpp"
int sched_cur() { return 0; }
bool sched_active() { return false; }
void sched_point(int) {}
SchedResult sched_run(const SchedConfig&, const std::vector<std::function<void()>>&) { return SchedResult(); }
bool sched_run_on_stack(size_t, const std::function<void()>& body, size_t*) { body(); return true; }
