// simsched — compiled WITHOUT any sanitizer instrumentation (see bin/simdriver.py), so that under
// ThreadSanitizer the hand-off between tasks creates no happens-before edge: two tasks' conflicting
// accesses are reported although exactly one task runs at a time and the PRNG decided the order.
#include "sched.hpp"
#include <pthread.h>
#include <linux/futex.h>
#include <sys/syscall.h>
#include <sys/mman.h>
#include <unistd.h>
#include <signal.h>
#include <cstdio>
#include <cstring>
#include <cstdlib>
#include <climits>

namespace {
const int MAXT = 20;
struct Task {
  int word = 0;                 // futex: 1 = may run
  bool finished = true;
  pthread_t th;
  unsigned char* map = nullptr; size_t map_len = 0;   // guard page + stack
  unsigned char* alt = nullptr;
  const std::function<void()>* body = nullptr;
};
Task T[MAXT];
int g_cur = 0;
bool g_active = false;
int g_ntasks = 0;
SchedConfig g_cfg;
SchedResult g_res;
uint64_t g_rng = 0;
size_t g_choice_i = 0;
uint64_t g_total_points = 0;

inline uint64_t mix(uint64_t x) { x += 0x9E3779B97F4A7C15ull; x = (x ^ (x >> 30)) * 0xBF58476D1CE4E5B9ull; x = (x ^ (x >> 27)) * 0x94D049BB133111EBull; return x ^ (x >> 31); }
uint64_t draw() { g_rng = mix(g_rng); return g_rng; }

void fwait(int* w) { while (__atomic_load_n(w, __ATOMIC_ACQUIRE) == 0) syscall(SYS_futex, w, FUTEX_WAIT, 0, nullptr, nullptr, 0); __atomic_store_n(w, 0, __ATOMIC_RELEASE); }
void fwake(int* w) { __atomic_store_n(w, 1, __ATOMIC_RELEASE); syscall(SYS_futex, w, FUTEX_WAKE, 1, nullptr, nullptr, 0); }

// pick who runs next among unfinished tasks; returns task id or 0 (main) when none is left
int choose(bool allow_stay, int kind) {
  int runnable[MAXT]; int n = 0;
  for (int i = 1; i <= g_ntasks; i++) if (!T[i].finished) runnable[n++] = i;
  if (n == 0) return 0;
  uint32_t c;
  if (g_choice_i < g_cfg.choices.size()) c = g_cfg.choices[g_choice_i]; else c = (uint32_t)(draw() >> 20);
  g_choice_i++;
  int next = runnable[c % (uint32_t)n];
  (void)allow_stay;
  if (g_res.trace.size() < 4096) g_res.trace.push_back((uint32_t)next);
  g_res.schedule_hash = mix(g_res.schedule_hash ^ ((uint64_t)next * 0x100 + (uint64_t)kind));
  return next;
}

void handoff(int self, int next, int kind) {
  if (next == self) return;
  g_res.switches++; if (kind != SP_API && kind >= 0) g_res.switches_inside_call++;
  g_cur = next;
  fwake(&T[next].word);
  fwait(&T[self].word);
  g_cur = self;
}

unsigned char* g_guard_lo[MAXT]; unsigned char* g_guard_hi[MAXT];

void* tramp(void* arg) {
  int id = (int)(intptr_t)arg;
  stack_t ss; ss.ss_sp = T[id].alt; ss.ss_size = 1 << 16; ss.ss_flags = 0; sigaltstack(&ss, nullptr);
  fwait(&T[id].word);          // wait to be scheduled for the first time
  g_cur = id;
  (*T[id].body)();
  T[id].finished = true;
  int next = choose(false, -1);
  g_cur = next;
  fwake(&T[next].word);
  return nullptr;
}

bool make_stack(Task& t, size_t stack_bytes, int id) {
  long pg = sysconf(_SC_PAGESIZE);
  size_t sz = (stack_bytes + (size_t)pg - 1) & ~((size_t)pg - 1);
  if (sz < (size_t)PTHREAD_STACK_MIN) sz = (size_t)PTHREAD_STACK_MIN;
  t.map_len = sz + (size_t)pg;
  t.map = (unsigned char*)mmap(nullptr, t.map_len, PROT_READ | PROT_WRITE, MAP_PRIVATE | MAP_ANONYMOUS | MAP_NORESERVE, -1, 0);
  if (t.map == MAP_FAILED) return false;
  mprotect(t.map, (size_t)pg, PROT_NONE);       // guard page below the stack
  g_guard_lo[id] = t.map; g_guard_hi[id] = t.map + pg;
  if (!t.alt) t.alt = (unsigned char*)malloc(1 << 16);
  return true;
}
size_t stack_used(const Task& t) {
  // pages of a fresh anonymous mapping become resident only when touched: the lowest resident page bounds the use
  long pg = sysconf(_SC_PAGESIZE);
  size_t npages = (t.map_len - (size_t)pg) / (size_t)pg;
  std::vector<unsigned char> vec(npages);
  if (mincore(t.map + pg, npages * (size_t)pg, vec.data()) != 0) return t.map_len;
  size_t first = 0; while (first < npages && !(vec[first] & 1)) first++;
  return (npages - first) * (size_t)pg;
}
}  // namespace

// used by the fault handler in protect.cpp
int sched_guard_owner(const void* addr) {
  for (int i = 0; i < MAXT; i++) if (g_guard_lo[i] && (const unsigned char*)addr >= g_guard_lo[i] && (const unsigned char*)addr < g_guard_hi[i]) return i;
  return -1;
}

int sched_cur() { return g_cur; }
bool sched_active() { return g_active; }

void sched_point(int kind) {
  if (!g_active) return;
  int self = g_cur; if (self == 0) return;
  g_res.points[kind]++; g_total_points++;
  if (g_total_points > g_cfg.max_points) { g_res.budget_exceeded = true; return; }
  if ((draw() >> 11) % 1000 >= g_cfg.preempt_permille) return;
  int next = choose(true, kind);
  handoff(self, next, kind);
}

SchedResult sched_run(const SchedConfig& cfg, const std::vector<std::function<void()>>& bodies) {
  g_cfg = cfg; g_res = SchedResult(); g_rng = cfg.rng_seed; g_choice_i = 0; g_total_points = 0;
  g_ntasks = (int)bodies.size(); if (g_ntasks > MAXT - 1) g_ntasks = MAXT - 1;
  for (int i = 1; i <= g_ntasks; i++) {
    Task& t = T[i]; t.word = 0; t.finished = false; t.body = &bodies[(size_t)i - 1];
    if (!make_stack(t, cfg.stack_bytes, i)) { fprintf(stderr, "HARNESS: cannot map task stack\n"); _exit(2); }
    pthread_attr_t a; pthread_attr_init(&a);
    long pg = sysconf(_SC_PAGESIZE);
    pthread_attr_setstack(&a, t.map + pg, t.map_len - (size_t)pg);
    if (pthread_create(&t.th, &a, tramp, (void*)(intptr_t)i) != 0) { fprintf(stderr, "HARNESS: pthread_create failed\n"); _exit(2); }
    pthread_attr_destroy(&a);
  }
  g_active = true;
  T[0].word = 0;
  int first = choose(false, -1);
  if (first != 0) { g_cur = first; fwake(&T[first].word); fwait(&T[0].word); }
  g_cur = 0; g_active = false;
  for (int i = 1; i <= g_ntasks; i++) { pthread_join(T[i].th, nullptr); munmap(T[i].map, T[i].map_len); T[i].map = nullptr; g_guard_lo[i] = g_guard_hi[i] = nullptr; }
  return g_res;
}

bool sched_run_on_stack(size_t stack_bytes, const std::function<void()>& body, size_t* used_bytes) {
  Task& t = T[MAXT - 1]; t.word = 1; t.finished = false; t.body = &body;
  if (!make_stack(t, stack_bytes, MAXT - 1)) { fprintf(stderr, "HARNESS: cannot map stack\n"); _exit(2); }
  struct Arg { const std::function<void()>* b; unsigned char* alt; } arg{&body, t.alt};
  pthread_attr_t a; pthread_attr_init(&a);
  long pg = sysconf(_SC_PAGESIZE);
  pthread_attr_setstack(&a, t.map + pg, t.map_len - (size_t)pg);
  auto fn = [](void* p) -> void* { Arg* ar = (Arg*)p; stack_t ss; ss.ss_sp = ar->alt; ss.ss_size = 1 << 16; ss.ss_flags = 0; sigaltstack(&ss, nullptr); (*ar->b)(); return nullptr; };
  int saved = g_cur; g_cur = 0;
  if (pthread_create(&t.th, &a, fn, &arg) != 0) { fprintf(stderr, "HARNESS: pthread_create failed\n"); _exit(2); }
  pthread_attr_destroy(&a);
  pthread_join(t.th, nullptr);
  g_cur = saved;
  if (used_bytes) *used_bytes = stack_used(t);
  munmap(t.map, t.map_len); t.map = nullptr; g_guard_lo[MAXT - 1] = g_guard_hi[MAXT - 1] = nullptr;
  return true;
}
