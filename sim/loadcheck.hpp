// One checked cbor_load call (shared by the sequence receiver, the fault sweep and the nesting workload).
#pragma once
#include "impl.hpp"
#include <functional>

struct LoadOutcome {
  bool item = false;          // an item was returned (already checked against the reference and released)
  uint64_t read = 0;
  int code = 0;               // cbor_error_code on failure
  uint64_t position = 0;
  RefLoad ref;                // what the reference says about this window
  uint64_t requests = 0;      // allocator requests the call made
  uint64_t refused = 0;
  bool nedata = false, hard = false, memerror = false;
};

struct LoadOpts {
  FaultSpec fault;            // injected into this call
  bool check_position_attr = true;   // recover the head of a refused allocation black-box and check MEMERROR position
  bool post_ops = true;       // serialise the returned tree and compare with the reference encoder
  bool exact_window = false;  // copy the window into an exactly sized block, release it before looking at the tree
  bool deep_post = false;     // also describe, size, serialize into a buffer, copy and release the copy (C19: bounded stack)
  std::function<void(const std::function<void()>&)> runner;   // when set, every library call goes through it (e.g. onto a bounded stack)
  unsigned L = 0;             // nesting limit of the build
  const char* where = "";
};

// Performs cbor_load(win, n) with `res` pre-filled with a sentinel and checks everything the properties say
// about the outcome. Violations are recorded through fail(). Returns the outcome for the caller's history.
LoadOutcome checked_load(const uint8_t* win, size_t n, const LoadOpts& o, MV* tree_out);

// requests a fault-free cbor_load makes on p[0..n) (result released). Used for black-box attribution.
uint64_t count_load_requests(const uint8_t* p, size_t n);
