// Link-time traps for libc facilities that keep hidden process-wide state (C17: "the library keeps no hidden
// mutable global state" — borrowing libc's counts). The library objects have these symbols renamed to
// __sim_trap_<name> (objcopy), so a call from library code lands here the moment it executes; the trap records
// the violation and forwards to the real function so that the run can continue.
#include "util.hpp"
#include <ctime>
#include <cstring>
#include <cstdlib>
#include <clocale>
#include <cwchar>
#include <pwd.h>
#include <unistd.h>
#include <libgen.h>
#include <langinfo.h>
#include <csignal>
#include <sys/stat.h>

static void mt(const char* what) {
  fail("C17", std::string("non-reentrant-libc:") + what, std::string("library code called ") + what + "(), which keeps process-wide state inside libc: two threads working on private items share it");
}
extern "C" {
struct tm* __sim_trap_gmtime(const time_t* t) { mt("gmtime"); return gmtime(t); }
struct tm* __sim_trap_localtime(const time_t* t) { mt("localtime"); return localtime(t); }
char* __sim_trap_ctime(const time_t* t) { mt("ctime"); return ctime(t); }
char* __sim_trap_asctime(const struct tm* t) { mt("asctime"); return asctime(t); }
char* __sim_trap_strtok(char* s, const char* d) { mt("strtok"); return strtok(s, d); }
int __sim_trap_rand(void) { mt("rand"); return rand(); }
void __sim_trap_srand(unsigned s) { mt("srand"); srand(s); }
long __sim_trap_random(void) { mt("random"); return random(); }
void __sim_trap_srandom(unsigned s) { mt("srandom"); srandom(s); }
double __sim_trap_drand48(void) { mt("drand48"); return drand48(); }
long __sim_trap_lrand48(void) { mt("lrand48"); return lrand48(); }
long __sim_trap_mrand48(void) { mt("mrand48"); return mrand48(); }
char* __sim_trap_setlocale(int c, const char* l) { if (l != nullptr) mt("setlocale"); return setlocale(c, l); }   // a pure query (NULL) changes nothing; switching the process locale does
char* __sim_trap_strerror(int e) { mt("strerror"); return strerror(e); }
char* __sim_trap_tmpnam(char* s) { mt("tmpnam"); static char none[] = "/nonexistent"; (void)s; return none; }
char* __sim_trap_ecvt(double v, int n, int* d, int* s) { mt("ecvt"); return ecvt(v, n, d, s); }
char* __sim_trap_fcvt(double v, int n, int* d, int* s) { mt("fcvt"); return fcvt(v, n, d, s); }
char* __sim_trap_strsignal(int s) { mt("strsignal"); return strsignal(s); }
int __sim_trap_setenv(const char* n, const char* v, int o) { mt("setenv"); return setenv(n, v, o); }
int __sim_trap_putenv(char* s) { mt("putenv"); return putenv(s); }
int __sim_trap_unsetenv(const char* n) { mt("unsetenv"); return unsetenv(n); }
struct passwd* __sim_trap_getpwnam(const char* n) { mt("getpwnam"); return getpwnam(n); }
struct passwd* __sim_trap_getpwuid(uid_t u) { mt("getpwuid"); return getpwuid(u); }
char* __sim_trap_ttyname(int fd) { mt("ttyname"); return ttyname(fd); }
char* __sim_trap_basename(char* p) { mt("basename"); return basename(p); }
char* __sim_trap_dirname(char* p) { mt("dirname"); return dirname(p); }
char* __sim_trap_nl_langinfo(nl_item i) { mt("nl_langinfo"); return nl_langinfo(i); }
struct lconv* __sim_trap_localeconv(void) { mt("localeconv"); return localeconv(); }
size_t __sim_trap_wcstombs(char* d, const wchar_t* s, size_t n) { mt("wcstombs"); return wcstombs(d, s, n); }
size_t __sim_trap_mbstowcs(wchar_t* d, const char* s, size_t n) { mt("mbstowcs"); return mbstowcs(d, s, n); }
int __sim_trap_mblen(const char* s, size_t n) { mt("mblen"); return mblen(s, n); }
int __sim_trap_mbtowc(wchar_t* d, const char* s, size_t n) { mt("mbtowc"); return mbtowc(d, s, n); }
int __sim_trap_wctomb(char* s, wchar_t w) { mt("wctomb"); return wctomb(s, w); }
// process-wide state kept by the kernel on the process's behalf: a library that saves, changes and restores it around its own work
// races with every other thread doing the same (and with the application's own settings)
typedef void (*sim_sighandler_t)(int);
sim_sighandler_t __sim_trap_signal(int sig, sim_sighandler_t h) { mt("signal"); return signal(sig, h); }
sim_sighandler_t __sim_trap___sysv_signal(int sig, sim_sighandler_t h) { mt("signal"); return signal(sig, h); }     // what `signal` is called in the strict ISO C dialects
sim_sighandler_t __sim_trap_bsd_signal(int sig, sim_sighandler_t h) { mt("signal"); return signal(sig, h); }
char* __sim_trap___xpg_basename(char* p) { mt("basename"); return basename(p); }
int __sim_trap_sigaction(int sig, const struct sigaction* a, struct sigaction* o) { if (a != nullptr) mt("sigaction"); return sigaction(sig, a, o); }
int __sim_trap_sigprocmask(int how, const sigset_t* s, sigset_t* o) { if (s != nullptr) mt("sigprocmask"); return sigprocmask(how, s, o); }
mode_t __sim_trap_umask(mode_t m) { mt("umask"); return umask(m); }
int __sim_trap_chdir(const char* p) { mt("chdir"); return chdir(p); }
void __sim_trap_tzset(void) { mt("tzset"); tzset(); }
void __sim_trap_srand48(long v) { mt("srand48"); srand48(v); }
unsigned __sim_trap_alarm(unsigned s) { mt("alarm"); return alarm(s); }
int __sim_trap_atexit(void (*f)(void)) { mt("atexit"); return atexit(f); }
}
