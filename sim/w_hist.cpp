// W1 plan generation and execution (C03, C04, C11, C12, C13). The executor draws nothing: the plan is explicit.
#include "hist.hpp"

namespace {
struct W { int code; unsigned w; };
// weights per profile
const W BASE[] = {{OP_NEW_INT, 5}, {OP_NEW_FLOAT, 2}, {OP_NEW_CTRL, 2}, {OP_NEW_BSTR, 3}, {OP_NEW_TSTR, 3}, {OP_NEW_INDEF_BSTR, 2}, {OP_NEW_INDEF_TSTR, 2}, {OP_NEW_DEF_ARRAY, 4}, {OP_NEW_INDEF_ARRAY, 4},
                  {OP_NEW_DEF_MAP, 3}, {OP_NEW_INDEF_MAP, 3}, {OP_NEW_TAG, 2}, {OP_BUILD_TAG, 3}, {OP_PUSH, 10}, {OP_PUSH_MANY, 1}, {OP_SET, 3}, {OP_REPLACE, 6}, {OP_GET, 6}, {OP_MAP_ADD, 6}, {OP_ADD_CHUNK, 4},
                  {OP_TAG_SET, 3}, {OP_TAG_ITEM, 3}, {OP_COPY, 4}, {OP_LOAD, 2}, {OP_LOAD_RAW, 3}, {OP_SERIALIZE_ALLOC, 2}, {OP_SERIALIZE, 1}, {OP_SIZE, 1}, {OP_DESCRIBE, 1}, {OP_INCREF, 5}, {OP_DECREF, 11},
                  {OP_INTERMEDIATE_DECREF, 2}, {OP_SETVAL, 2}, {OP_MARK, 1}, {OP_GETTERS, 2}, {OP_RESET_HANDLE, 2}};
const W SER[] = {{OP_NEW_INT, 8}, {OP_NEW_FLOAT, 6}, {OP_NEW_CTRL, 3}, {OP_NEW_BSTR, 6}, {OP_NEW_TSTR, 6}, {OP_NEW_INDEF_BSTR, 3}, {OP_NEW_INDEF_TSTR, 3}, {OP_NEW_DEF_ARRAY, 5}, {OP_NEW_INDEF_ARRAY, 5},
                 {OP_NEW_DEF_MAP, 4}, {OP_NEW_INDEF_MAP, 4}, {OP_NEW_TAG, 2}, {OP_BUILD_TAG, 4}, {OP_PUSH, 10}, {OP_PUSH_MANY, 2}, {OP_SET, 2}, {OP_REPLACE, 3}, {OP_GET, 1}, {OP_MAP_ADD, 7}, {OP_ADD_CHUNK, 6},
                 {OP_TAG_SET, 2}, {OP_COPY, 2}, {OP_LOAD, 6}, {OP_LOAD_RAW, 3}, {OP_SERIALIZE_ALLOC, 6}, {OP_SERIALIZE, 6}, {OP_SIZE, 3}, {OP_DECREF, 3}, {OP_SETVAL, 5}, {OP_MARK, 2}, {OP_GETTERS, 3}, {OP_RESET_HANDLE, 2}};
const W COPYP[] = {{OP_NEW_INT, 4}, {OP_NEW_FLOAT, 2}, {OP_NEW_CTRL, 1}, {OP_NEW_BSTR, 3}, {OP_NEW_TSTR, 3}, {OP_NEW_INDEF_BSTR, 2}, {OP_NEW_INDEF_TSTR, 2}, {OP_NEW_DEF_ARRAY, 4}, {OP_NEW_INDEF_ARRAY, 4},
                   {OP_NEW_DEF_MAP, 3}, {OP_NEW_INDEF_MAP, 3}, {OP_NEW_TAG, 1}, {OP_BUILD_TAG, 3}, {OP_PUSH, 10}, {OP_SET, 2}, {OP_REPLACE, 5}, {OP_GET, 5}, {OP_MAP_ADD, 6}, {OP_ADD_CHUNK, 4}, {OP_TAG_SET, 2}, {OP_TAG_ITEM, 2},
                   {OP_COPY, 14}, {OP_SERIALIZE_ALLOC, 2}, {OP_INCREF, 2}, {OP_DECREF, 10}, {OP_INTERMEDIATE_DECREF, 1}, {OP_SETVAL, 5}, {OP_MARK, 2}, {OP_GETTERS, 3}, {OP_LOAD_RAW, 2}};
const W CONT[] = {{OP_NEW_INT, 5}, {OP_NEW_CTRL, 1}, {OP_NEW_BSTR, 3}, {OP_NEW_TSTR, 3}, {OP_NEW_INDEF_BSTR, 3}, {OP_NEW_INDEF_TSTR, 3}, {OP_NEW_DEF_ARRAY, 7}, {OP_NEW_INDEF_ARRAY, 6}, {OP_NEW_DEF_MAP, 5}, {OP_NEW_INDEF_MAP, 5},
                  {OP_PUSH, 14}, {OP_PUSH_MANY, 3}, {OP_SET, 10}, {OP_REPLACE, 10}, {OP_GET, 10}, {OP_MAP_ADD, 10}, {OP_ADD_CHUNK, 7}, {OP_DECREF, 5}, {OP_GETTERS, 2}, {OP_COPY, 1}, {OP_LOAD_RAW, 4}};   // containers that come out of the decoder are containers too

template <size_t N> int pick_op(Rng& g, const W (&t)[N]) {
  unsigned tot = 0; for (auto& e : t) tot += e.w;
  unsigned r = (unsigned)g.below(tot);
  for (auto& e : t) { if (r < e.w) return e.code; r -= e.w; }
  return t[0].code;
}
uint64_t small_cap(Rng& g) { switch (g.below(10)) { case 0: return 0; case 1: return g.range(23, 25); case 2: return g.chance(1, 8) ? g.range(255, 300) : g.below(9); default: return g.below(9); } }
}  // namespace

static bool marathon_refs = false;
void gen_hist_ops(Rng& g, Rng& fr, const std::string& prop, unsigned nops, bool with_faults, J& ops) {
  // an abstract view of the pool keeps short plans meaningful (only ask for a push when an array is likely there)
  int deep_follow = 0, grow_follow = 0; unsigned grow_kind = 0;
  unsigned n_pool = 0, n_arr = 0, n_map = 0, n_istr = 0, n_tag = 0, n_dstr = 0;
  for (unsigned i = 0; i < nops; i++) {
    int code;
    for (int tries = 0;; tries++) {
      if (prop == "C03") code = pick_op(g, SER); else if (prop == "C11") code = pick_op(g, COPYP); else if (prop == "C12") code = pick_op(g, CONT); else code = pick_op(g, BASE);
      if (tries > 20) break;
      bool need_item = code >= OP_BUILD_TAG && code != OP_LOAD_RAW;
      if (need_item && n_pool == 0) continue;
      if ((code == OP_PUSH || code == OP_PUSH_MANY || code == OP_SET || code == OP_REPLACE || code == OP_GET) && n_arr == 0) continue;
      if (code == OP_MAP_ADD && n_map == 0) continue;
      if (code == OP_ADD_CHUNK && (n_istr == 0 || n_dstr == 0)) continue;
      if ((code == OP_TAG_SET || code == OP_TAG_ITEM) && n_tag == 0) continue;
      if (code == OP_RESET_HANDLE && n_dstr == 0) continue;
      if (code == OP_DECREF && n_pool <= 1 && i + 1 < nops && tries < 10) continue;
      break;
    }
    if (nops <= 40 && g.chance(1, prop == "C12" || prop == "C03" ? 2500 : 20000)) { HOp b; b.code = OP_BIG; b.a = prop == "C03" ? 3 : prop == "C12" ? g.below(3) : g.below(4); b.b = g.next() >> 8; b.c = g.next() >> 8; b.d = g.below(16); ops.push(hop_to_json(b)); }
    if (nops <= 40 && (prop == "C04" || prop == "C13" || prop == "C03") && g.chance(1, 6000)) { HOp b; b.code = OP_BIG; b.a = 5; b.b = g.next() >> 8; b.c = g.next() >> 8; ops.push(hop_to_json(b)); }   // encoding larger than SIZE_MAX
    if (marathon_refs && i == 0 && (prop == "C04" || prop == "C13") && g.chance(1, 150000)) { HOp b; b.code = OP_BIG; b.a = 4; b.c = g.next() >> 8; ops.push(hop_to_json(b)); }   // ~2^33 library calls: thorough tier only
    if (deep_follow > 0 && i + 1 < nops + 3) { static const int F[] = {OP_SIZE, OP_SERIALIZE, OP_SERIALIZE_ALLOC, OP_DESCRIBE, OP_COPY}; code = F[g.below(5)]; }
    bool growing = false;
    if (grow_follow > 0 && deep_follow == 0 && i + 1 < nops + 4) {
      // insert into the container the decoder has just built (a chunk needs a definite string of the same kind first)
      growing = true;
      if (grow_kind >= 2 && grow_follow == 4) code = grow_kind == 2 ? OP_NEW_BSTR : OP_NEW_TSTR;
      else code = grow_kind == 0 ? (g.chance(1, 4) ? OP_SET : OP_PUSH) : grow_kind == 1 ? OP_MAP_ADD : OP_ADD_CHUNK;
      if (grow_follow == 1 && g.chance(1, 2)) code = g.chance(1, 2) ? OP_SERIALIZE : OP_COPY;
      grow_follow--;
    }
    HOp o; o.code = code; o.a = g.next() >> 8; o.b = g.next() >> 8; o.c = g.next() >> 8; o.d = g.below(16);
    switch (code) {
      case OP_NEW_INT: o.a = g.below(4); o.b = g.below(2); o.c = gen_u64(g); break;
      case OP_NEW_FLOAT: { o.a = g.below(3); MV t; GenProfile gp; do { Rng r2(g.next(), "f"); t = gen_mv(r2, gp, 99); } while (t.kind != MK_FLOAT || t.width != (2 << o.a)); o.c = t.val; break; }
      case OP_NEW_CTRL: o.a = g.below(5); o.c = g.below(4); break;
      case OP_NEW_BSTR: case OP_NEW_TSTR: o.a = gen_len(g, prop == "C03" ? 70000 : 300); o.b = g.next(); n_dstr++; break;
      case OP_NEW_DEF_ARRAY: o.a = small_cap(g); n_arr++; break;
      case OP_NEW_INDEF_ARRAY: n_arr++; break;
      case OP_NEW_DEF_MAP: o.a = small_cap(g); n_map++; break;
      case OP_NEW_INDEF_MAP: n_map++; break;
      case OP_NEW_INDEF_BSTR: case OP_NEW_INDEF_TSTR: n_istr++; break;
      case OP_NEW_TAG: case OP_BUILD_TAG: { static const uint64_t IANA[] = {0, 1, 2, 3, 4, 5, 16, 17, 18, 21, 22, 23, 24, 32, 33, 34, 35, 36, 37, 100, 258, 1004, 55799}; o.c = g.chance(1, 3) ? IANA[g.below(sizeof IANA / sizeof IANA[0])] : gen_u64(g); n_tag++; break; }
      case OP_PUSH_MANY: { static const uint64_t C[] = {3, 8, 22, 23, 24, 25, 64, 254, 255, 256, 257, 1000, 3000}; o.c = (prop == "C03" && g.chance(1, 6)) ? g.range(65534, 65537) : C[g.below(sizeof C / sizeof C[0])]; if (nops > 40 && o.c > 300) o.c = 300; o.c -= 1; break; }
      case OP_SET: case OP_REPLACE: case OP_GET: o.c = g.below(64); break;
      case OP_RESET_HANDLE: o.c = g.below(400); break;
      case OP_MAP_ADD: case OP_ADD_CHUNK: if ((prop == "C12" || prop == "C03") && nops <= 40 && g.chance(1, 12)) { static const uint64_t C[] = {3, 22, 23, 24, 30, 129, 130, 254, 255, 256, 300, 1000, 3000}; o.d |= (C[g.below(13)] - 1) << 4; } break;
      case OP_SETVAL: { if (g.chance(1, 2)) o.c = gen_u64(g); else { GenProfile gp; MV t; do { Rng r2(g.next(), "f"); t = gen_mv(r2, gp, 99); } while (t.kind != MK_FLOAT); o.c = t.val; } break; }
      case OP_LOAD_RAW: o.c = g.next(); o.d &= ~28ull; if ((prop == "C13" || prop == "C03" || prop == "C04") && g.chance(1, 2)) { o.d |= 8; deep_follow = 3; } else if (g.chance(1, 10)) { o.d |= 4; deep_follow = 2; } else if (g.chance(1, prop == "C12" ? 2 : 6)) { o.d |= 16; grow_follow = 4; grow_kind = (unsigned)((o.c >> 3) % 4); n_arr++; n_map++; n_istr++; } break;
      default: break;
    }
    if (code <= OP_BUILD_TAG || code == OP_COPY || code == OP_LOAD || code == OP_LOAD_RAW || code == OP_GET || code == OP_TAG_ITEM || code == OP_INCREF) n_pool++;
    if ((code == OP_DECREF || code == OP_INTERMEDIATE_DECREF) && n_pool) n_pool--;
    if (with_faults && (code == OP_LOAD || code == OP_LOAD_RAW || code == OP_COPY) && fr.chance(1, 2)) {
      // whole-tree operations make many requests: spread single refusals over all of them (index taken modulo the real count)
      o.fk = fr.chance(3, 4) ? F_NTH : F_FROM; o.fkk = fr.below(64);
    } else if (with_faults && fr.chance(1, 5)) {
      switch (fr.below(7)) { case 0: case 1: o.fk = F_NTH; o.fkk = fr.below(8); break; case 2: case 3: o.fk = F_FROM; o.fkk = fr.below(6); break; case 4: o.fk = F_REALLOC_ONLY; o.fkk = 0; break; case 5: o.fk = F_PROB; o.fkk = fr.range(100, 500); break; default: o.fk = F_QUOTA; o.fkk = fr.below(700); }
    }
    if (deep_follow > 0 && code != OP_LOAD_RAW) { o.a = SEL_LAST; deep_follow--; }
    if (growing && code != OP_NEW_BSTR && code != OP_NEW_TSTR) { o.a = SEL_LAST; if (code == OP_ADD_CHUNK) o.b = SEL_LAST; if (code == OP_SET) o.c = SEL_LAST; }
    ops.push(hop_to_json(o));
  }
}

J gen_hist(const std::string& prop, uint64_t run_seed, const std::string& tier) {
  Rng g(run_seed, "gen"), fr(run_seed, "fault"), kn(run_seed, "knobs");
  J plan = J::obj(); J knobs = J::obj();
  bool c13 = prop == "C13";
  { uint64_t be = c13 ? kn.below(3) : (uint64_t)BE_DIRECT; if (!c13) { uint64_t r = kn.below(8); be = r == 0 ? BE_TAG : r == 1 ? BE_ARENA : BE_DIRECT; } knobs.set("be", be); }
  knobs.set("pack", kn.below(2));   // arena back end only: blocks back to back, as a header-less size-class allocator places them
  knobs.set("rm", kn.below(2));
  knobs.set("maxreq", (uint64_t)1 << 20);
  knobs.set("fill", kn.below(4) == 0 ? kn.range(1, 2) : 0);   // fresh memory: mostly 0xAA, sometimes all-zero or all-ones
  knobs.set("fpmode", gen_fpmode(kn));   // the calling thread's floating-point environment: FTZ/DAZ in a quarter of the runs, a directed rounding mode in a quarter
  plan.set("knobs", knobs);
  bool long_run = kn.chance(1, 12);
  unsigned nops = long_run ? (unsigned)kn.range(100, tier == "thorough" ? 2500 : 500) : (unsigned)kn.range(2, 14);
  bool with_faults = kn.chance(1, 2);
  marathon_refs = tier == "thorough";
  J ops = J::arr(); gen_hist_ops(g, fr, prop, nops, with_faults, ops);
  plan.set("ops", ops);
  for (size_t i = 0; i < ops.size(); i++) if (ops[i].iu(0) == OP_BIG && ops[i].iu(1) % 6 == 4) { J k2 = plan.at("knobs"); k2.set("watchdog", 1800); plan.set("knobs", k2); }   // 2^33 calls take a while
  J drop = J::arr(); for (int i = 0; i < 40; i++) drop.push(g.below(1000)); plan.set("drop", drop);
  return plan;
}

void exec_hist(const J& plan) {
  if (!g_task_mode) sa_reset(knobs_alloc(plan));
  Hist H;
  const J& ops = plan.at("ops");
  for (size_t i = 0; i < ops.size() && !failed() && !g_run.foreign_seen; i++) H.run_op(hop_from_json(ops[i]));
  if (!failed() && !g_run.foreign_seen) H.final_checks();
  std::vector<uint64_t> order; for (size_t i = 0; i < plan.at("drop").size(); i++) order.push_back(plan.at("drop").iu(i));
  if (!failed() && !g_run.foreign_seen) H.drop_all(order);
  if (!failed() && !g_run.foreign_seen) if (!g_task_mode) sa_check_integrity();
  const std::string& p = g_run.prop;
  if (p == "C04") g_run.nontrivial = H.seen_shared && H.items_released >= 1;
  else if (p == "C03") g_run.nontrivial = H.serial_checked_nontrivial >= 1;
  else if (p == "C11") g_run.nontrivial = H.copy_then_touched >= 1;
  else if (p == "C12") g_run.nontrivial = (H.refusals_capacity + H.refusals_index) >= 1 && H.inserts_ok >= 1;
  else g_run.nontrivial = sa_total_requests() >= 1 && H.items_released >= 1;
  stat_add("probe_shared_child_released_via_one_parent", H.shared_releases); stat_add("probe_replace_of_last_reference", H.replace_last_ref); stat_add("probe_cascade_depth_ge3", H.cascades3);
  stat_add("probe_failed_insert_after_move", H.failed_after_move); stat_add("probe_tag_repointed", H.tag_repointed); stat_add("items_released", H.items_released);
  stat_add("refusals_capacity", H.refusals_capacity); stat_add("refusals_index", H.refusals_index); stat_add("inserts_ok", H.inserts_ok); stat_add("roundtrips", H.roundtrips);
  stat_add("copies_touched_later", H.copy_then_touched);
}
