// Reference tokeniser, encoder and structural decoder — from RFC 8949, no libcbor code.
#include "ref.hpp"

Tok ref_tok(const uint8_t* p, size_t n) {
  Tok t;
  if (n == 0) { t.st = TS_INCOMPLETE; t.head_len = 1; t.total_len = 1; return t; }
  unsigned ib = p[0], major = ib >> 5, ai = ib & 31;
  // argument width
  if (ai < 24) t.argw = 0;
  else if (ai == 24) t.argw = 1;
  else if (ai == 25) t.argw = 2;
  else if (ai == 26) t.argw = 4;
  else if (ai == 27) t.argw = 8;
  else if (ai < 31) { t.st = TS_RESERVED; return t; }          // 28,29,30 reserved in every major type
  else {                                                        // 31
    t.argw = 0;
    switch (major) {
      case 2: t.kind = TK_BSTR_START; break;
      case 3: t.kind = TK_TSTR_START; break;
      case 4: t.kind = TK_ARRAY_START; break;
      case 5: t.kind = TK_MAP_START; break;
      case 7: t.kind = TK_BREAK; break;
      default: t.st = TS_RESERVED; return t;                   // 0x1f 0x3f 0xdf
    }
    t.head_len = 1; t.total_len = 1; t.head_complete = true; return t;
  }
  // major 7 profile restrictions (libcbor supports only simple values 20..23, and floats)
  if (major == 7) {
    if (ai < 20) { t.st = TS_RESERVED; return t; }              // unassigned simple values
    if (ai == 24) { t.st = TS_RESERVED; return t; }             // one-byte simple value: unsupported
  }
  t.head_len = 1 + (unsigned)t.argw;
  if (n < t.head_len) { t.st = TS_INCOMPLETE; t.total_len = t.head_len; return t; }
  t.head_complete = true;
  uint64_t arg = 0;
  if (t.argw == 0) arg = ai; else for (int i = 0; i < t.argw; i++) arg = (arg << 8) | p[1 + i];
  t.arg = arg; t.total_len = t.head_len;
  switch (major) {
    case 0: t.kind = TK_UINT; break;
    case 1: t.kind = TK_NEGINT; break;
    case 2: t.kind = TK_BSTR; t.total_len = (u128)t.head_len + arg; break;
    case 3: t.kind = TK_TSTR; t.total_len = (u128)t.head_len + arg; break;
    case 4: t.kind = TK_ARRAY; break;
    case 5: t.kind = TK_MAP; break;
    case 6: t.kind = TK_TAG; break;
    case 7:
      if (ai == 20 || ai == 21) { t.kind = TK_BOOL; t.arg = (ai == 21); }
      else if (ai == 22) t.kind = TK_NULL;
      else if (ai == 23) t.kind = TK_UNDEF;
      else if (ai == 25) t.kind = TK_FLOAT2;
      else if (ai == 26) t.kind = TK_FLOAT4;
      else t.kind = TK_FLOAT8;
      break;
  }
  if ((u128)n < t.total_len) t.st = TS_INCOMPLETE;
  return t;
}

uint32_t half_bits_to_float_bits(uint16_t h) {
  uint32_t sign = (uint32_t)(h & 0x8000u) << 16;
  uint32_t e = (h >> 10) & 0x1f, m = h & 0x3ff;
  if (e == 0) {
    if (m == 0) return sign;
    // subnormal: m * 2^-24; normalise
    int shift = 0;
    while (!(m & 0x400)) { m <<= 1; shift++; }
    m &= 0x3ff;
    uint32_t fe = (uint32_t)(127 - 15 - shift + 1);
    return sign | (fe << 23) | (m << 13);
  }
  if (e == 31) return sign | 0x7f800000u | (m << 13);
  return sign | ((e - 15 + 127) << 23) | (m << 13);
}

bool float_bits_is_half(uint32_t f) {
  uint32_t e = (f >> 23) & 0xff, m = f & 0x7fffff;
  if (e == 0xff) return true;
  if (e == 0) return m == 0;
  int le = (int)e - 127;
  if (le > 15) return false;
  if (le >= -14) return (m & 0x1fff) == 0;
  if (le < -24) return false;
  // subnormal half: value = (1.m) * 2^le must be a multiple of 2^-24
  int drop = 13 + (-14 - le);
  return ((m | 0x800000u) & ((1u << drop) - 1)) == 0;
}

void ref_head(unsigned major, uint64_t arg, std::vector<uint8_t>& out) {
  unsigned mb = major << 5;
  if (arg < 24) out.push_back((uint8_t)(mb | arg));
  else if (arg <= 0xff) { out.push_back((uint8_t)(mb | 24)); out.push_back((uint8_t)arg); }
  else if (arg <= 0xffff) { out.push_back((uint8_t)(mb | 25)); out.push_back((uint8_t)(arg >> 8)); out.push_back((uint8_t)arg); }
  else if (arg <= 0xffffffffull) { out.push_back((uint8_t)(mb | 26)); for (int i = 3; i >= 0; i--) out.push_back((uint8_t)(arg >> (8 * i))); }
  else { out.push_back((uint8_t)(mb | 27)); for (int i = 7; i >= 0; i--) out.push_back((uint8_t)(arg >> (8 * i))); }
}

static void fixed_head(unsigned major, int width, uint64_t arg, std::vector<uint8_t>& out) {
  unsigned mb = major << 5;
  switch (width) {
    case 1: if (arg < 24) out.push_back((uint8_t)(mb | arg)); else { out.push_back((uint8_t)(mb | 24)); out.push_back((uint8_t)arg); } break;
    case 2: out.push_back((uint8_t)(mb | 25)); out.push_back((uint8_t)(arg >> 8)); out.push_back((uint8_t)arg); break;
    case 4: out.push_back((uint8_t)(mb | 26)); for (int i = 3; i >= 0; i--) out.push_back((uint8_t)(arg >> (8 * i))); break;
    default: out.push_back((uint8_t)(mb | 27)); for (int i = 7; i >= 0; i--) out.push_back((uint8_t)(arg >> (8 * i))); break;
  }
}

static bool is_nan_bits(int width, uint64_t v) {
  if (width == 2) return ((v >> 10) & 0x1f) == 0x1f && (v & 0x3ff) != 0;
  if (width == 4) return ((v >> 23) & 0xff) == 0xff && (v & 0x7fffff) != 0;
  return ((v >> 52) & 0x7ff) == 0x7ff && (v & 0xfffffffffffffull) != 0;
}

static void wide_head(unsigned major, uint64_t arg, unsigned steps, std::vector<uint8_t>& out) {
  // widths in order: embedded (arg < 24), 1, 2, 4, 8 bytes
  int minw = arg < 24 ? 0 : arg <= 0xff ? 1 : arg <= 0xffff ? 2 : arg <= 0xffffffffull ? 3 : 4;
  int w = minw + (int)steps; if (w > 4) w = 4;
  unsigned mb = major << 5;
  if (w == 0) { out.push_back((uint8_t)(mb | arg)); return; }
  int nbytes = 1 << (w - 1);
  out.push_back((uint8_t)(mb | (23 + w)));
  for (int i = nbytes - 1; i >= 0; i--) out.push_back((uint8_t)(arg >> (8 * i)));
}

void ref_encode_wire(const MV& v, const std::function<unsigned()>& widen, std::vector<uint8_t>& out) {
  switch (v.kind) {
    case MK_BSTR: case MK_TSTR: {
      unsigned major = v.kind == MK_BSTR ? 2 : 3;
      if (v.definite) { wide_head(major, v.bytes.size(), widen(), out); out.insert(out.end(), v.bytes.begin(), v.bytes.end()); }
      else { out.push_back((uint8_t)((major << 5) | 31)); for (auto& c : v.kids) ref_encode_wire(c, widen, out); out.push_back(0xff); }
      break;
    }
    case MK_ARRAY:
      if (v.definite) { wide_head(4, v.kids.size(), widen(), out); for (auto& c : v.kids) ref_encode_wire(c, widen, out); }
      else { out.push_back(0x9f); for (auto& c : v.kids) ref_encode_wire(c, widen, out); out.push_back(0xff); }
      break;
    case MK_MAP:
      if (v.definite) { wide_head(5, v.kids.size() / 2, widen(), out); for (auto& c : v.kids) ref_encode_wire(c, widen, out); }
      else { out.push_back(0xbf); for (auto& c : v.kids) ref_encode_wire(c, widen, out); out.push_back(0xff); }
      break;
    case MK_TAG: wide_head(6, v.val, widen(), out); if (!v.kids.empty()) ref_encode_wire(v.kids[0], widen, out); break;
    case MK_FLOAT: {
      out.push_back((uint8_t)(0xe0 | (v.width == 2 ? 25 : v.width == 4 ? 26 : 27)));
      for (int i = v.width - 1; i >= 0; i--) out.push_back((uint8_t)(v.val >> (8 * i)));     // NaN payload as stored, not canonicalised
      break;
    }
    default: ref_encode(v, out);    // integers carry their width in the model; simple values have one encoding the decoder accepts
  }
}

void ref_encode(const MV& v, std::vector<uint8_t>& out) {
  switch (v.kind) {
    case MK_UINT: fixed_head(0, v.width, v.val, out); break;
    case MK_NEGINT: fixed_head(1, v.width, v.val, out); break;
    case MK_BSTR: case MK_TSTR: {
      unsigned major = v.kind == MK_BSTR ? 2 : 3;
      if (v.definite) { ref_head(major, v.bytes.size(), out); out.insert(out.end(), v.bytes.begin(), v.bytes.end()); }
      else { out.push_back((uint8_t)((major << 5) | 31)); for (auto& c : v.kids) ref_encode(c, out); out.push_back(0xff); }
      break;
    }
    case MK_ARRAY:
      if (v.definite) { ref_head(4, v.kids.size(), out); for (auto& c : v.kids) ref_encode(c, out); }
      else { out.push_back(0x9f); for (auto& c : v.kids) ref_encode(c, out); out.push_back(0xff); }
      break;
    case MK_MAP:
      if (v.definite) { ref_head(5, v.kids.size() / 2, out); for (auto& c : v.kids) ref_encode(c, out); }
      else { out.push_back(0xbf); for (auto& c : v.kids) ref_encode(c, out); out.push_back(0xff); }
      break;
    case MK_TAG: ref_head(6, v.val, out); if (!v.kids.empty()) ref_encode(v.kids[0], out); break;
    case MK_FLOAT: {
      uint64_t bits = v.val;
      if (is_nan_bits(v.width, bits)) bits = v.width == 2 ? 0x7e00ull : v.width == 4 ? 0x7fc00000ull : 0x7ff8000000000000ull;
      out.push_back((uint8_t)(0xe0 | (v.width == 2 ? 25 : v.width == 4 ? 26 : 27)));
      for (int i = v.width - 1; i >= 0; i--) out.push_back((uint8_t)(bits >> (8 * i)));
      break;
    }
    case MK_CTRL:
      if (v.val < 24) out.push_back((uint8_t)(0xe0 | v.val)); else { out.push_back(0xf8); out.push_back((uint8_t)v.val); }
      break;
  }
}

unsigned ref_depth(const MV& v) {
  switch (v.kind) {
    case MK_BSTR: case MK_TSTR: return v.definite ? 0 : 1;
    case MK_ARRAY: case MK_MAP: case MK_TAG: {
      if ((v.kind != MK_TAG) && v.definite && v.kids.empty()) return 0;
      unsigned d = 0; for (auto& c : v.kids) d = std::max(d, ref_depth(c));
      return d + 1;
    }
    default: return 0;
  }
}

static void mv_str_rec(const MV& v, std::string& s, size_t limit) {
  if (s.size() > limit) return;
  char b[64];
  switch (v.kind) {
    case MK_UINT: snprintf(b, sizeof b, "u%d:%llu", v.width * 8, (unsigned long long)v.val); s += b; break;
    case MK_NEGINT: snprintf(b, sizeof b, "n%d:%llu", v.width * 8, (unsigned long long)v.val); s += b; break;
    case MK_BSTR: case MK_TSTR:
      s += v.kind == MK_BSTR ? "h" : "t";
      if (v.definite) { snprintf(b, sizeof b, "'%zuB'", v.bytes.size()); s += b; }
      else { s += "(_"; for (auto& c : v.kids) { s += " "; mv_str_rec(c, s, limit); } s += ")"; }
      break;
    case MK_ARRAY: s += v.definite ? "[" : "[_"; for (auto& c : v.kids) { s += " "; mv_str_rec(c, s, limit); } s += "]"; break;
    case MK_MAP: s += v.definite ? "{" : "{_"; for (auto& c : v.kids) { s += " "; mv_str_rec(c, s, limit); } s += "}"; break;
    case MK_TAG: snprintf(b, sizeof b, "%llu(", (unsigned long long)v.val); s += b; if (!v.kids.empty()) mv_str_rec(v.kids[0], s, limit); s += ")"; break;
    case MK_FLOAT: snprintf(b, sizeof b, "f%d:%llx", v.width * 8, (unsigned long long)v.val); s += b; break;
    case MK_CTRL: snprintf(b, sizeof b, "simple(%llu)", (unsigned long long)v.val); s += b; break;
  }
}
std::string mv_str(const MV& v, int limit) { std::string s; mv_str_rec(v, s, (size_t)limit); if (s.size() > (size_t)limit) { s.resize((size_t)limit); s += "..."; } return s; }

size_t ref_utf8_count(const uint8_t* p, size_t n) {
  size_t i = 0, count = 0;
  while (i < n) {
    uint8_t c = p[i];
    size_t len; uint32_t cp, minv;
    if (c < 0x80) { len = 1; cp = c; minv = 0; }
    else if (c >= 0xC2 && c <= 0xDF) { len = 2; cp = c & 0x1f; minv = 0x80; }
    else if (c >= 0xE0 && c <= 0xEF) { len = 3; cp = c & 0x0f; minv = 0x800; }
    else if (c >= 0xF0 && c <= 0xF4) { len = 4; cp = c & 0x07; minv = 0x10000; }
    else return 0;
    if (i + len > n) return 0;
    for (size_t k = 1; k < len; k++) { uint8_t d = p[i + k]; if ((d & 0xC0) != 0x80) return 0; cp = (cp << 6) | (d & 0x3f); }
    if (cp < minv) return 0;
    if (cp >= 0xD800 && cp <= 0xDFFF) return 0;
    if (cp > 0x10FFFF) return 0;
    i += len; count++;
  }
  return count;
}

bool mv_equal(const MV& a, const MV& b) {
  if (a.kind != b.kind) return false;
  switch (a.kind) {
    case MK_UINT: case MK_NEGINT: return a.width == b.width && a.val == b.val;
    case MK_FLOAT:
      if (a.width != b.width) return false;
      if (is_nan_bits(a.width, a.val) && is_nan_bits(b.width, b.val)) return true;
      return a.val == b.val;
    case MK_CTRL: return a.val == b.val;
    case MK_TAG: if (a.val != b.val) return false; break;
    case MK_BSTR: case MK_TSTR: if (a.definite != b.definite) return false; if (a.definite) return a.bytes == b.bytes; break;
    case MK_ARRAY: case MK_MAP: if (a.definite != b.definite) return false; break;
  }
  if (a.kids.size() != b.kids.size()) return false;
  for (size_t i = 0; i < a.kids.size(); i++) if (!mv_equal(a.kids[i], b.kids[i])) return false;
  return true;
}

// ------------------------------------------------------------------ structural decoder
namespace {
enum FK { F_ARR_DEF, F_ARR_INDEF, F_MAP_DEF, F_MAP_INDEF, F_TAG, F_BSTR_INDEF, F_TSTR_INDEF };
struct Frame { FK k; uint64_t remaining; bool parity; MV node; };
}

RefLoad ref_load(const uint8_t* p, size_t n, unsigned L, uint64_t alloc_cap) {
  RefLoad r;
  if (n == 0) { r.st = R_NODATA; r.pos = 0; return r; }
  std::vector<Frame> st;
  uint64_t pos = 0;
  bool have_illegal = false; uint64_t illegal_pos = 0;
  auto finish = [&](RStatus s, uint64_t at) -> RefLoad& {
    r.st = s; r.pos = at;
    if (have_illegal && !(s == R_SYNTAX && at == illegal_pos)) { r.alt = true; r.alt_st = R_SYNTAX; r.alt_pos = illegal_pos; }
    return r;
  };
  for (;;) {
    if (pos >= n) return finish(R_NEDATA, pos);
    Tok t = ref_tok(p + pos, n - pos);
    if (t.st == TS_RESERVED) return finish(R_MALFORMED, pos);
    if (t.st == TS_INCOMPLETE) return finish(R_NEDATA, pos);
    uint64_t after = pos + (uint64_t)t.total_len;
    r.tok_end.push_back(after); r.tokens++;
    bool have_value = false; MV val;
    bool in_chunked = !st.empty() && (st.back().k == F_BSTR_INDEF || st.back().k == F_TSTR_INDEF);
    auto open_frame = [&](FK k, uint64_t remaining, MV node) -> bool {
      if (st.size() >= L) return false;
      if (in_chunked && !have_illegal) { have_illegal = true; illegal_pos = after; }
      Frame f; f.k = k; f.remaining = remaining; f.parity = false; f.node = std::move(node);
      st.push_back(std::move(f));
      if (st.size() > r.max_depth) r.max_depth = (unsigned)st.size();
      return true;
    };
    switch (t.kind) {
      case TK_UINT: case TK_NEGINT:
        val.kind = t.kind == TK_UINT ? MK_UINT : MK_NEGINT; val.width = t.argw == 0 ? 1 : t.argw; val.val = t.arg; have_value = true; break;
      case TK_FLOAT2: val.kind = MK_FLOAT; val.width = 2; val.val = t.arg; have_value = true; break;
      case TK_FLOAT4: val.kind = MK_FLOAT; val.width = 4; val.val = t.arg; have_value = true; break;
      case TK_FLOAT8: val.kind = MK_FLOAT; val.width = 8; val.val = t.arg; have_value = true; break;
      case TK_BOOL: val.kind = MK_CTRL; val.val = t.arg ? 21 : 20; have_value = true; break;
      case TK_NULL: val.kind = MK_CTRL; val.val = 22; have_value = true; break;
      case TK_UNDEF: val.kind = MK_CTRL; val.val = 23; have_value = true; break;
      case TK_BSTR: case TK_TSTR: {
        if (t.arg > alloc_cap) return finish(R_MEMERROR, after);
        val.kind = t.kind == TK_BSTR ? MK_BSTR : MK_TSTR; val.definite = true;
        val.bytes.assign(p + pos + t.head_len, p + pos + t.head_len + t.arg);
        // a definite chunk of the right type extends the open chunked string
        if (!st.empty() && ((t.kind == TK_BSTR && st.back().k == F_BSTR_INDEF) || (t.kind == TK_TSTR && st.back().k == F_TSTR_INDEF))) {
          st.back().node.kids.push_back(std::move(val));
        } else have_value = true;
        break;
      }
      case TK_ARRAY: case TK_MAP: {
        bool is_map = t.kind == TK_MAP;
        u128 bytes = (u128)t.arg * (is_map ? 16 : 8);
        if (bytes > (u128)alloc_cap) return finish(R_MEMERROR, after);
        MV node; node.kind = is_map ? MK_MAP : MK_ARRAY; node.definite = true;
        if (t.arg == 0) { val = std::move(node); have_value = true; }
        else if (!open_frame(is_map ? F_MAP_DEF : F_ARR_DEF, is_map ? t.arg * 2 : t.arg, std::move(node))) return finish(R_MEMERROR, after);
        break;
      }
      case TK_ARRAY_START: { MV node; node.kind = MK_ARRAY; node.definite = false; if (!open_frame(F_ARR_INDEF, 0, std::move(node))) return finish(R_MEMERROR, after); break; }
      case TK_MAP_START: { MV node; node.kind = MK_MAP; node.definite = false; if (!open_frame(F_MAP_INDEF, 0, std::move(node))) return finish(R_MEMERROR, after); break; }
      case TK_BSTR_START: { MV node; node.kind = MK_BSTR; node.definite = false; if (!open_frame(F_BSTR_INDEF, 0, std::move(node))) return finish(R_MEMERROR, after); break; }
      case TK_TSTR_START: { MV node; node.kind = MK_TSTR; node.definite = false; if (!open_frame(F_TSTR_INDEF, 0, std::move(node))) return finish(R_MEMERROR, after); break; }
      case TK_TAG: { MV node; node.kind = MK_TAG; node.val = t.arg; if (!open_frame(F_TAG, 1, std::move(node))) return finish(R_MEMERROR, after); break; }
      case TK_BREAK: {
        if (st.empty()) return finish(R_SYNTAX, after);
        Frame& f = st.back();
        bool ok = f.k == F_ARR_INDEF || f.k == F_BSTR_INDEF || f.k == F_TSTR_INDEF || (f.k == F_MAP_INDEF && !f.parity);
        if (!ok) return finish(R_SYNTAX, after);
        val = std::move(f.node); st.pop_back(); have_value = true;
        break;
      }
    }
    pos = after;
    // propagate a completed value upwards
    while (have_value) {
      if (st.empty()) { r.st = R_ITEM; r.read = pos; r.tree = std::move(val); r.alt = false; return r; }
      Frame& f = st.back();
      switch (f.k) {
        case F_ARR_INDEF: f.node.kids.push_back(std::move(val)); have_value = false; break;
        case F_MAP_INDEF: f.node.kids.push_back(std::move(val)); f.parity = !f.parity; have_value = false; break;
        case F_ARR_DEF: case F_MAP_DEF:
          f.node.kids.push_back(std::move(val));
          if (--f.remaining == 0) { val = std::move(f.node); st.pop_back(); } else have_value = false;
          break;
        case F_TAG: f.node.kids.push_back(std::move(val)); val = std::move(f.node); st.pop_back(); break;
        case F_BSTR_INDEF: case F_TSTR_INDEF: return finish(R_SYNTAX, pos);   // something that is not a chunk landed in a chunked string
      }
    }
  }
}
