// util.hpp — PRNG, hashing, tiny JSON, event log, violation record.
// Everything a run decides derives from one integer (see DESIGN.md §3.1).
#pragma once
#include <cstdint>
#include <cstdio>
#include <cstdlib>
#include <cstring>
#include <string>
#include <vector>
#include <utility>
#include <algorithm>

typedef unsigned __int128 u128;

// ---------------------------------------------------------------- hashing
static inline uint64_t mix64(uint64_t x) {
  x += 0x9E3779B97F4A7C15ull;
  x = (x ^ (x >> 30)) * 0xBF58476D1CE4E5B9ull;
  x = (x ^ (x >> 27)) * 0x94D049BB133111EBull;
  return x ^ (x >> 31);
}
static inline uint64_t hash_bytes(const void* p, size_t n, uint64_t h = 0xcbf29ce484222325ull) {
  const unsigned char* s = (const unsigned char*)p;
  for (size_t i = 0; i < n; i++) { h ^= s[i]; h *= 0x100000001b3ull; }
  return mix64(h ^ n);
}
static inline uint64_t hash_str(const std::string& s, uint64_t h = 0xcbf29ce484222325ull) {
  return hash_bytes(s.data(), s.size(), h);
}
static inline uint64_t hash_comb(uint64_t a, uint64_t b) { return mix64(a ^ (mix64(b) + 0x632BE59BD9B4E019ull + (a << 6) + (a >> 2))); }

// ---------------------------------------------------------------- PRNG
struct Rng {
  uint64_t s[4];
  Rng() { seed(0); }
  Rng(uint64_t sd, const char* stream) { seed(hash_comb(sd, hash_bytes(stream, strlen(stream)))); }
  void seed(uint64_t x) {
    for (int i = 0; i < 4; i++) { x += 0x9E3779B97F4A7C15ull; s[i] = mix64(x); }
  }
  static inline uint64_t rotl(uint64_t x, int k) { return (x << k) | (x >> (64 - k)); }
  uint64_t next() {
    uint64_t r = rotl(s[1] * 5, 7) * 9, t = s[1] << 17;
    s[2] ^= s[0]; s[3] ^= s[1]; s[1] ^= s[2]; s[0] ^= s[3]; s[2] ^= t; s[3] = rotl(s[3], 45);
    return r;
  }
  uint64_t below(uint64_t n) { return n ? next() % n : 0; }          // [0,n)
  uint64_t range(uint64_t lo, uint64_t hi) { return lo + below(hi - lo + 1); }  // [lo,hi]
  bool chance(unsigned num, unsigned den) { return below(den) < num; }
  template <class T> const T& pick(const std::vector<T>& v) { return v[below(v.size())]; }
};

// ---------------------------------------------------------------- JSON
struct J {
  enum T { NUL, BOOL, NUM, STR, ARR, OBJ } t = NUL;
  uint64_t u = 0; bool neg = false; bool b = false;
  std::string s;
  std::vector<J> a;
  std::vector<std::pair<std::string, J>> o;
  J() {}
  static J num(uint64_t v) { J j; j.t = NUM; j.u = v; return j; }
  static J boolean(bool v) { J j; j.t = BOOL; j.b = v; return j; }
  static J str(const std::string& v) { J j; j.t = STR; j.s = v; return j; }
  static J arr() { J j; j.t = ARR; return j; }
  static J obj() { J j; j.t = OBJ; return j; }
  J& push(const J& v) { a.push_back(v); return *this; }
  J& push(uint64_t v) { a.push_back(num(v)); return *this; }
  J& set(const std::string& k, const J& v) {
    for (auto& kv : o) if (kv.first == k) { kv.second = v; return *this; }
    o.emplace_back(k, v); return *this;
  }
  J& set(const std::string& k, uint64_t v) { return set(k, num(v)); }
  J& set(const std::string& k, const char* v) { return set(k, str(v)); }
  J& set(const std::string& k, const std::string& v) { return set(k, str(v)); }
  const J* find(const std::string& k) const {
    for (auto& kv : o) if (kv.first == k) return &kv.second;
    return nullptr;
  }
  bool has(const std::string& k) const { return find(k) != nullptr; }
  const J& at(const std::string& k) const { static J nul; const J* p = find(k); return p ? *p : nul; }
  uint64_t getu(const std::string& k, uint64_t d = 0) const { const J* p = find(k); return (p && p->t == NUM) ? p->u : (p && p->t == BOOL ? (uint64_t)p->b : d); }
  std::string gets(const std::string& k, const std::string& d = "") const { const J* p = find(k); return (p && p->t == STR) ? p->s : d; }
  size_t size() const { return t == ARR ? a.size() : o.size(); }
  const J& operator[](size_t i) const { static J nul; return i < a.size() ? a[i] : nul; }
  uint64_t iu(size_t i, uint64_t d = 0) const { return (i < a.size() && a[i].t == NUM) ? a[i].u : d; }

  static void esc(const std::string& s, std::string& out) {
    out.push_back('"');
    for (unsigned char c : s) {
      if (c == '"' || c == '\\') { out.push_back('\\'); out.push_back((char)c); }
      else if (c < 0x20 || c >= 0x7f) { char b[8]; snprintf(b, sizeof b, "\\u%04x", c); out += b; }
      else out.push_back((char)c);
    }
    out.push_back('"');
  }
  void dump(std::string& out) const {
    switch (t) {
      case NUL: out += "null"; break;
      case BOOL: out += b ? "true" : "false"; break;
      case NUM: { char buf[32]; snprintf(buf, sizeof buf, "%s%llu", neg ? "-" : "", (unsigned long long)u); out += buf; break; }
      case STR: esc(s, out); break;
      case ARR: out.push_back('['); for (size_t i = 0; i < a.size(); i++) { if (i) out.push_back(','); a[i].dump(out); } out.push_back(']'); break;
      case OBJ: out.push_back('{'); for (size_t i = 0; i < o.size(); i++) { if (i) out.push_back(','); esc(o[i].first, out); out.push_back(':'); o[i].second.dump(out); } out.push_back('}'); break;
    }
  }
  std::string dump() const { std::string s; dump(s); return s; }

  // --- parser (accepts what dump() and python's json.dump emit; floats truncated)
  struct P { const char* p; const char* e; bool ok = true; };
  static void ws(P& p) { while (p.p < p.e && (*p.p == ' ' || *p.p == '\n' || *p.p == '\t' || *p.p == '\r')) p.p++; }
  static J parse_val(P& p) {
    ws(p); J j;
    if (p.p >= p.e) { p.ok = false; return j; }
    char c = *p.p;
    if (c == '{') {
      j.t = OBJ; p.p++; ws(p);
      if (p.p < p.e && *p.p == '}') { p.p++; return j; }
      while (p.ok) {
        ws(p); J k = parse_val(p); if (k.t != STR) { p.ok = false; break; }
        ws(p); if (p.p >= p.e || *p.p != ':') { p.ok = false; break; } p.p++;
        J v = parse_val(p); j.o.emplace_back(k.s, v); ws(p);
        if (p.p < p.e && *p.p == ',') { p.p++; continue; }
        if (p.p < p.e && *p.p == '}') { p.p++; break; }
        p.ok = false;
      }
    } else if (c == '[') {
      j.t = ARR; p.p++; ws(p);
      if (p.p < p.e && *p.p == ']') { p.p++; return j; }
      while (p.ok) {
        j.a.push_back(parse_val(p)); ws(p);
        if (p.p < p.e && *p.p == ',') { p.p++; continue; }
        if (p.p < p.e && *p.p == ']') { p.p++; break; }
        p.ok = false;
      }
    } else if (c == '"') {
      j.t = STR; p.p++;
      while (p.p < p.e && *p.p != '"') {
        if (*p.p == '\\' && p.p + 1 < p.e) {
          p.p++; char d = *p.p++;
          switch (d) {
            case 'n': j.s.push_back('\n'); break; case 't': j.s.push_back('\t'); break;
            case 'r': j.s.push_back('\r'); break; case 'b': j.s.push_back('\b'); break;
            case 'f': j.s.push_back('\f'); break;
            case 'u': { unsigned v = 0; for (int i = 0; i < 4 && p.p < p.e; i++) { char h = *p.p++; v = v * 16 + (h <= '9' ? h - '0' : (h | 32) - 'a' + 10); } j.s.push_back((char)(v & 0xff)); break; }
            default: j.s.push_back(d);
          }
        } else j.s.push_back(*p.p++);
      }
      if (p.p < p.e) p.p++; else p.ok = false;
    } else if (c == 't' && p.e - p.p >= 4) { j.t = BOOL; j.b = true; p.p += 4; }
    else if (c == 'f' && p.e - p.p >= 5) { j.t = BOOL; j.b = false; p.p += 5; }
    else if (c == 'n' && p.e - p.p >= 4) { j.t = NUL; p.p += 4; }
    else if (c == '-' || (c >= '0' && c <= '9')) {
      j.t = NUM; if (c == '-') { j.neg = true; p.p++; }
      while (p.p < p.e && *p.p >= '0' && *p.p <= '9') j.u = j.u * 10 + (uint64_t)(*p.p++ - '0');
      if (p.p < p.e && (*p.p == '.' || *p.p == 'e' || *p.p == 'E')) { while (p.p < p.e && (strchr("+-.eE", *p.p) || (*p.p >= '0' && *p.p <= '9'))) p.p++; }
    } else p.ok = false;
    return j;
  }
  static bool parse(const std::string& s, J& out) { P p{s.data(), s.data() + s.size()}; out = parse_val(p); return p.ok; }
};

static inline std::string to_hex(const uint8_t* p, size_t n) {
  static const char* d = "0123456789abcdef"; std::string s; s.reserve(n * 2);
  for (size_t i = 0; i < n; i++) { s.push_back(d[p[i] >> 4]); s.push_back(d[p[i] & 15]); }
  return s;
}
static inline std::string to_hex(const std::vector<uint8_t>& v) { return to_hex(v.data(), v.size()); }
static inline std::vector<uint8_t> from_hex(const std::string& s) {
  std::vector<uint8_t> v; v.reserve(s.size() / 2);
  auto hv = [](char c) -> int { return c <= '9' ? c - '0' : (c | 32) - 'a' + 10; };
  for (size_t i = 0; i + 1 < s.size(); i += 2) v.push_back((uint8_t)(hv(s[i]) * 16 + hv(s[i + 1])));
  return v;
}

// ---------------------------------------------------------------- event log (digest; optional trace)
// No addresses, no clock, no PRNG draws in here.
int sched_cur();
struct EvLog {
  uint64_t digest = 0x1234567;
  uint64_t count = 0;
  bool trace = false;
  void reset() { digest = 0x1234567; count = 0; }
  void ev(const char* tag, uint64_t a = 0, uint64_t b = 0, uint64_t c = 0) {
    digest = hash_comb(digest, hash_bytes(tag, strlen(tag)));
    digest = hash_comb(digest, a); digest = hash_comb(digest, b); digest = hash_comb(digest, c);
    count++;
    if (trace) fprintf(stderr, "ev t%d %llu %s %llu %llu %llu\n", sched_cur(), (unsigned long long)count, tag, (unsigned long long)a, (unsigned long long)b, (unsigned long long)c);
  }
  void evs(const char* tag, const std::string& s) { ev(tag, hash_str(s), s.size()); }
};
extern EvLog g_logs[];          // one per simulated task (0 = main); tasks never share a log
#define g_log (g_logs[sched_cur()])
extern bool g_task_mode;         // workload bodies run as tasks of a W4 plan (no allocator reset, per-task leak checks)

// ---------------------------------------------------------------- violations
// First violation of a run wins. `cls` names property + oracle clause; it is what
// shrinking keeps constant. `props` lists the properties the oracle belongs to.
struct Violation {
  bool set = false;
  std::string cls, detail, props;
};
extern Violation g_viol;
void fail(const char* props, const std::string& cls, const std::string& detail);
static inline bool failed() { return g_viol.set; }
std::string fmt(const char* f, ...) __attribute__((format(printf, 1, 2)));

// counters for evidence (name -> value), summed across workers by the driver
void stat_add(const char* name, uint64_t v = 1);
void stat_max(const char* name, uint64_t v);
