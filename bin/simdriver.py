"""libcbor deterministic-simulation driver: build, fan out, gate, shrink, replay, evidence."""
import sys, os, json, hashlib, subprocess, time, re, shutil, struct, glob, signal
from concurrent.futures import ThreadPoolExecutor, as_completed

sys.setrecursionlimit(20000)
VERIF = os.path.dirname(os.path.dirname(os.path.abspath(__file__)))
REPO = os.environ.get('VERIF_REPO', '/repo')
BUILD = os.environ.get('VERIF_BUILD', os.path.join(VERIF, 'build'))
JOBS = int(os.environ.get('VERIF_JOBS', '16'))
SIM = os.path.join(VERIF, 'sim')
REPLAYS = os.environ.get('VERIF_REPLAYS', os.path.join(VERIF, 'replays'))
EVIDENCE = os.environ.get('VERIF_EVIDENCE', os.path.join(VERIF, 'evidence'))
CC, CXX = 'clang', 'clang++'
TRAPS = ['malloc', 'free', 'realloc', 'calloc', 'strdup', 'aligned_alloc', 'posix_memalign',
         'strndup', '__strdup', 'reallocarray', 'memalign', 'valloc', 'getline', 'open_memstream', 'asprintf', 'vasprintf']   # libc calls that hand out or take heap blocks
# libc facilities that keep hidden per-process state (C17): a call from library code is trapped when it executes
TRAPS_MT = ['gmtime', 'localtime', 'ctime', 'asctime', 'strtok', 'rand', 'srand', 'random', 'srandom', 'drand48', 'lrand48', 'mrand48', 'setlocale', 'strerror', 'tmpnam', 'ecvt', 'fcvt', 'strsignal', 'setenv', 'putenv', 'unsetenv', 'getpwnam', 'getpwuid', 'ttyname', 'basename', 'dirname', 'nl_langinfo', 'localeconv', 'wcstombs', 'mbstowcs', 'mblen', 'mbtowc', 'wctomb',
            'signal', '__sysv_signal', 'bsd_signal', '__xpg_basename', 'sigaction', 'sigprocmask', 'umask', 'chdir', 'tzset', 'srand48', 'alarm', 'atexit']

def log(*a):
    print(*a, file=sys.stderr, flush=True)

def sh(cmd, **kw):
    return subprocess.run(cmd, stdout=subprocess.PIPE, stderr=subprocess.PIPE, text=True, **kw)

def hfile(h, path):
    with open(path, 'rb') as f:
        h.update(path.encode()); h.update(f.read())

def tree_hash(paths):
    h = hashlib.sha256()
    for p in sorted(paths):
        hfile(h, p)
    return h.hexdigest()[:16]

# --------------------------------------------------------------------------- build
FLAVOURS = {
    # name: (lib cflags, harness cxxflags, link flags, shared lib?)
    'asan': (['-O1', '-g', '-fno-omit-frame-pointer', '-fsanitize=address,undefined', '-fno-sanitize-recover=all', '-DDEBUG=true'],
             ['-O1', '-g', '-fno-omit-frame-pointer', '-fsanitize=address,undefined', '-fno-sanitize-recover=all', '-DSIM_FLAVOUR_ASAN'],
             ['-fsanitize=address,undefined'], False),
    'plainO2': (['-O2', '-g', '-gdwarf-4', '-DNDEBUG', '-fPIC'], ['-O2', '-g', '-gdwarf-4', '-DSIM_FLAVOUR_PLAIN'], [], True),    # dwarf-4: valgrind 3.19 cannot read clang's DWARF 5
    # the project's Debug flavour (-DDEBUG=true: CBOR_ASSERT and the code under #ifdef DEBUG are compiled in) at -O0 ...
    'plainO0': (['-O0', '-g', '-gdwarf-4', '-DDEBUG=true', '-fPIC'], ['-O2', '-g', '-gdwarf-4', '-DSIM_FLAVOUR_PLAIN'], [], True),
    # size-optimised release build in the newest C dialect the compiler offers: what `CMAKE_BUILD_TYPE=MinSizeRel` with a compiler that
    # passes the project's [[nodiscard]] probe produces (__OPTIMIZE_SIZE__ defined, __STDC_VERSION__ >= 201112L), for the x86-64-v2 instruction-set level distributions now build for
    # (__POPCNT__, __SSE4_2__ ... defined); every check runs a slice on it
    'plainOs': (['-Os', '-g', '-gdwarf-4', '-DNDEBUG', '-fPIC', '-std=c2x', '-march=x86-64-v2'], ['-O2', '-g', '-gdwarf-4', '-DSIM_FLAVOUR_PLAIN'], [], True, 'gcc'),   # and with the other compiler: the library objects of this flavour are gcc's
    # ... and under ThreadSanitizer; plainO2 is the release flavour (-DNDEBUG)
    'tsan': (['-O1', '-g', '-fno-omit-frame-pointer', '-fsanitize=thread', '-DDEBUG=true'], ['-O2', '-g', '-DSIM_FLAVOUR_TSAN'], ['-fsanitize=thread'], False),
}

def repo_sources():
    src = os.path.join(REPO, 'src')
    cs, hs = [], []
    for root, _, files in os.walk(src):
        for f in files:
            p = os.path.join(root, f)
            if f.endswith('.c'): cs.append(p)
            elif f.endswith('.h') or f.endswith('.in'): hs.append(p)
    return sorted(cs), sorted(hs)

def cmake_inputs():
    out = [os.path.join(REPO, 'CMakeLists.txt'), os.path.join(REPO, 'src', 'CMakeLists.txt')]
    out += glob.glob(os.path.join(REPO, 'CMakeModules', '*'))
    out += glob.glob(os.path.join(REPO, 'src', 'cbor', '*.in'))
    return [p for p in out if os.path.isfile(p)]

def configure(L=None):
    """Run the repository's own CMake configure step; returns (cfgdir, sources, defines, includes, std)."""
    key = tree_hash(cmake_inputs()) + ('-L%s' % L if L else '') + '-' + hashlib.sha256(REPO.encode()).hexdigest()[:6]
    cfg = os.path.join(BUILD, 'cfg-' + key)
    cc_json = os.path.join(cfg, 'compile_commands.json')
    if not os.path.exists(cc_json):
        shutil.rmtree(cfg, ignore_errors=True)
        os.makedirs(cfg, exist_ok=True)
        cmd = ['cmake', '-S', REPO, '-B', cfg, '-G', 'Ninja', '-DWITH_TESTS=OFF', '-DWITH_EXAMPLES=OFF', '-DCMAKE_EXPORT_COMPILE_COMMANDS=ON',
               '-DCMAKE_C_COMPILER=clang', '-DCMAKE_BUILD_TYPE=Release', '-DSANITIZE=OFF']
        if L:
            # build configuration spec: "<nesting limit>" and/or "g<buffer growth factor>", e.g. 3, "g3", "8g4"
            m = re.match(r'^(\d+)?(?:g(\d+))?$', str(L))
            if not m: raise SystemExit(harness_fault('bad build configuration spec %r' % (L,)))
            if m.group(1): cmd.append('-DCBOR_MAX_STACK_SIZE=%s' % m.group(1))
            if m.group(2): cmd.append('-DCBOR_BUFFER_GROWTH=%s' % m.group(2))
        r = sh(cmd)
        if r.returncode != 0 or not os.path.exists(cc_json):
            log(r.stdout[-2000:], r.stderr[-2000:]); raise SystemExit(harness_fault('cmake configure failed'))
    cc = json.load(open(cc_json))
    sources, defines, includes, std = [], [], [], '-std=gnu99'
    for e in cc:
        f = e['file']
        if not f.startswith(os.path.join(REPO, 'src')): continue
        sources.append(f)
        toks = e['command'].split()
        for t in toks:
            if t.startswith('-D') and t not in defines: defines.append(t)
            if t.startswith('-I') and t not in includes: includes.append(t)
            if t.startswith('-std='): std = t
    if not sources: raise SystemExit(harness_fault('no library sources in compile_commands.json'))
    return cfg, sorted(set(sources)), defines, includes, std

def compile_many(jobs):
    """jobs: list of (cmd, out). Runs in parallel; raises on failure."""
    def one(j):
        cmd, out = j
        r = sh(cmd)
        return (cmd, out, r)
    with ThreadPoolExecutor(max_workers=JOBS) as ex:
        for cmd, out, r in ex.map(one, jobs):
            if r.returncode != 0:
                log(' '.join(cmd)); log(r.stdout[-4000:]); log(r.stderr[-4000:])
                raise SystemExit(harness_fault('compilation failed: ' + out))

import fcntl, contextlib
@contextlib.contextmanager
def build_lock():
    """Several checks may run at once on one build cache: builds and pruning are serialised across processes."""
    os.makedirs(BUILD, exist_ok=True)
    with open(os.path.join(BUILD, '.lock'), 'w') as f:
        fcntl.flock(f, fcntl.LOCK_EX)
        try: yield
        finally: fcntl.flock(f, fcntl.LOCK_UN)

def touch(*paths):
    for p in paths:
        try: os.utime(p, None)
        except OSError: pass

_built = {}
def build(flavour, L=None):
    with build_lock():
        return build_locked(flavour, L)

def build_locked(flavour, L=None):
    """Rebuild the library from REPO's working tree in the given flavour and link the simulator. Cached by content hash."""
    k = (flavour, L)
    if k in _built: return _built[k]
    t0 = time.time()
    libflags, simflags, ldflags, shared = FLAVOURS[flavour][:4]
    lib_cc = FLAVOURS[flavour][4] if len(FLAVOURS[flavour]) > 4 else CC
    cfg, sources, defines, includes, std = configure(L)
    # the configure step is a Release one (its compile commands carry -DNDEBUG); the flavour decides: the Debug flavours must
    # have assert() live, or CBOR_ASSERT and everything inside its argument is compiled out
    defines = [d for d in defines if d != '-DNDEBUG']
    cs, hs = repo_sources()
    cfg_headers = [os.path.join(cfg, 'cbor', 'configuration.h'), os.path.join(cfg, 'src', 'cbor', 'cbor_export.h')]
    for p in cfg_headers:
        if not os.path.exists(p): raise SystemExit(harness_fault('missing generated header ' + p))
    lib_key = tree_hash(sources + hs + cfg_headers) + '-' + hashlib.sha256((' '.join([lib_cc] + libflags + defines + [std] + TRAPS + TRAPS_MT)).encode()).hexdigest()[:8]
    libdir = os.path.join(BUILD, 'lib-%s-%s' % (flavour, lib_key))
    objs = []
    jobs = []
    os.makedirs(libdir, exist_ok=True)
    for s in sources:
        o = os.path.join(libdir, os.path.relpath(s, os.path.join(REPO, 'src')).replace('/', '_') + '.o')
        objs.append(o)
        if not os.path.exists(o):
            jobs.append(([lib_cc, std] + libflags + defines + includes + ['-c', s, '-o', o + '.tmp.o'], o))
    if jobs:
        compile_many(jobs)
        redef = []
        for t in TRAPS + TRAPS_MT: redef += ['--redefine-sym', '%s=__sim_trap_%s' % (t, t)]
        for _, o in jobs:
            r = sh(['objcopy'] + redef + [o + '.tmp.o', o + '.oc'])
            if r.returncode != 0: raise SystemExit(harness_fault('objcopy failed: ' + r.stderr))
            os.rename(o + '.oc', o); os.unlink(o + '.tmp.o')
    # harness objects: depend on simulator sources, repo headers and generated headers
    sim_srcs = sorted(glob.glob(os.path.join(SIM, '*.cpp')))
    sim_hdrs = sorted(glob.glob(os.path.join(SIM, '*.hpp')))
    sim_key = tree_hash(sim_srcs + sim_hdrs + hs + cfg_headers) + '-' + hashlib.sha256(' '.join(simflags).encode()).hexdigest()[:8]
    simdir = os.path.join(BUILD, 'sim-%s-%s' % (flavour, sim_key))
    os.makedirs(simdir, exist_ok=True)
    sobjs, jobs = [], []
    for s in sim_srcs:
        o = os.path.join(simdir, os.path.basename(s) + '.o')
        sobjs.append(o)
        if not os.path.exists(o):
            fl = list(simflags)
            if os.path.basename(s) == 'sched.cpp':   # the baton must stay invisible to every sanitizer
                fl = [f for f in fl if not f.startswith('-fsanitize') and not f.startswith('-fno-sanitize')]
            jobs.append(([CXX, '-std=c++17', '-Wall', '-Wno-unused-function'] + fl + includes + ['-I' + SIM, '-c', s, '-o', o + '.part'], o))
    if jobs:
        compile_many(jobs)
        for _, o in jobs: os.rename(o + '.part', o)
    exe = os.path.join(BUILD, 'bin', 'sim-%s-%s-%s' % (flavour, lib_key, sim_key))
    so = os.path.join(libdir, 'libcbor_sim.so')
    if shared and not os.path.exists(so):
        r = sh([CC, '-shared', '-o', so + '.tmp'] + objs + ['-Wl,-z,now', '-Wl,-z,relro', '-lm'])
        if r.returncode != 0: log(r.stderr); raise SystemExit(harness_fault('link of shared library failed'))
        os.rename(so + '.tmp', so)
    if not os.path.exists(exe):
        os.makedirs(os.path.dirname(exe), exist_ok=True)
        if shared:
            link = [CXX, '-o', exe + '.tmp'] + sobjs + [so, '-Wl,-rpath,' + libdir, '-lpthread', '-ldl', '-lm', '-rdynamic'] + ldflags
        else:
            link = [CXX, '-o', exe + '.tmp'] + sobjs + objs + ['-lpthread', '-ldl', '-lm', '-rdynamic'] + ldflags
        r = sh(link)
        if r.returncode != 0: log(' '.join(link)); log(r.stderr[-6000:]); raise SystemExit(harness_fault('link failed'))
        os.rename(exe + '.tmp', exe)
    _built[k] = exe
    touch(cfg, libdir, simdir, exe)     # least-recently-used bookkeeping for prune_build
    log('[build] %s%s ready in %.1fs' % (flavour, ' L=%s' % L if L else '', time.time() - t0))
    return exe

def harness_fault(msg):
    print('HARNESS-FAULT: ' + msg, flush=True)
    return 2

def prune_build():
    """Keep the build cache small: drop everything but the newest few directories per kind."""
    if not os.path.isdir(BUILD): return
    with build_lock(): prune_build_locked()

def prune_build_locked():
    groups = {}
    now = time.time()
    for d in os.listdir(BUILD):
        p = os.path.join(BUILD, d)
        if d == '.lock': continue
        if d.startswith('tmp-'):
            if now - os.path.getmtime(p) > 6 * 3600: shutil.rmtree(p, ignore_errors=True)      # left behind by a killed check
            continue
        if d == 'bin':
            for f in os.listdir(p): groups.setdefault('bin-' + f.split('-')[1], []).append(os.path.join(p, f))
            continue
        kind = '-'.join(d.split('-')[:2])
        groups.setdefault(kind, []).append(p)
    for kind, paths in groups.items():
        paths.sort(key=lambda x: os.path.getmtime(x), reverse=True)
        keep = 24
        for p in paths[keep:]:
            if now - os.path.getmtime(p) < 6 * 3600: continue      # another check may still be running on it
            if os.path.isdir(p): shutil.rmtree(p, ignore_errors=True)
            else:
                try: os.unlink(p)
                except OSError: pass

# --------------------------------------------------------------------------- property table
ASSUME_ALLOC = ['A1: the installed allocator returns a unique non-NULL pointer for zero-size requests (glibc behaviour)',
                'A2: realloc(NULL, n) behaves as malloc(n)', 'A3: free(NULL) is a no-op',
                'allocator configured once with cbor_set_allocs before any item exists',
                'generated API histories stay inside the documented preconditions (acyclic containers, chunk types, no item-less tag traversed, handles allocated with the installed allocator)']
PROPS = {
    'C03': dict(level='exploration', phases=[('asan', None, 60000, 600000)],
                rule='one evaluation = one seeded construction history (W1) whose root handles are serialised and round-tripped; non-trivial = at least one root with a container or chunked string was compared byte-for-byte with the reference encoder and re-loaded; distinct = distinct plan digests'),
    'C04': dict(level='exploration', phases=[('asan', None, 80000, 800000)],
                rule='one evaluation = one seeded API history (W1) checked against the shadow ownership graph after every step; non-trivial = the history shared at least one item between two owners and released at least one item; distinct = distinct plan digests'),
    'C05': dict(level='fault_enumeration', phases=[('asan', None, 30000, 300000), ('asan', 3, 15000, 100000)],
                rule='one evaluation = one CBOR sequence delivered over a fragmenting, closing connection to a cbor_load receiver (every retry checked), or one load scenario swept over every refused allocation k; non-trivial = at least one failing cbor_load call was observed and checked (NOTENOUGHDATA, MEMERROR, or a hard error); distinct = distinct plan digests'),
    'C06': dict(level='fault_enumeration', phases=[('asan', None, 24000, 160000)],
                rule='one evaluation = one scenario (state built by a W1 prefix, one target operation) re-run once per refused allocation index k and once per fail-stop index k; non-trivial = the fault-free run made N>=1 requests and at least one injected refusal fired; distinct = distinct plan digests'),
    'C08': dict(level='exploration', phases=[('asan', None, 300000, 3000000)],
                rule='one evaluation = one multi-connection streaming run; every cbor_stream_decode call in it is checked against the reference tokeniser; non-trivial = at least one fragment was delivered and decoded; distinct = distinct plan digests'),
    'C09': dict(level='exploration', phases=[('asan', None, 300000, 3000000)],
                rule='one evaluation = one (streams, fragmentations, delivery schedule) plan run through the documented client; non-trivial = some connection received >= 2 fragments and at least one NEDATA wait happened; distinct = distinct plan digests'),
    'C11': dict(level='exploration', phases=[('asan', None, 150000, 1500000)],
                rule='one evaluation = one W1 history with cbor_copy weighted up, followed by diverging mutations/releases on source and copy; non-trivial = at least one copy of a tree with >= 2 nodes was taken and both trees were later modified or released; distinct = distinct plan digests'),
    'C12': dict(level='exploration', phases=[('asan', None, 40000, 400000)],
                rule='one evaluation = one container operation history compared step by step with the list model; non-trivial = at least one refused operation (capacity or index) and one accepted insertion occurred; distinct = distinct plan digests'),
    'C13': dict(level='exploration', phases=[('asan', None, 80000, 800000)],
                rule='one evaluation = one W1 history or W3 stream run under a PRNG-chosen allocator configuration (direct / tagging / arena; realloc moving or not; faults on or off) with libc allocator entry points of the library objects trapped at link time; non-trivial = the library made >= 1 request through the installed allocator and released >= 1 block; distinct = distinct plan digests'),
    'C14': dict(level='exploration', phases=[('asan', None, 100000, 1000000)],
                rule='one evaluation = one CBOR sequence (items + tail) delivered in fragments to a cbor_load sequence receiver that retries on NOTENOUGHDATA and scribbles consumed bytes; non-trivial = >= 2 items were received and at least one item was decoded with a non-empty suffix behind it; distinct = distinct plan digests'),
    'C17': dict(level='exploration', phases=[('plainO2', None, 4500, 50000), ('plainO0', None, 1500, 15000), ('tsan', None, 4000, 40000)],
                rule='one evaluation = one multi-task plan (2-16 real threads, each with its own workload) first run solo per task, then under the seeded scheduler with a choice at every allocator call, streaming callback and describe write; non-trivial = at least one pre-emption happened inside a library call; distinct = distinct schedule hashes'),
    'C18': dict(level='exploration', phases=[('plainO2', None, 15000, 150000), ('plainO0', None, 15000, 150000), ('tsan', None, 1500, 15000)],
                rule='one evaluation = one tree built inside the arena, write-protected, then inspected with every read-only operation on every node (or read concurrently by 2-8 threads under TSan); non-trivial = the tree has >= 2 nodes and >= 10 read-only calls ran under protection; distinct = distinct plan digests'),
    'C19': dict(level='exploration', phases=[('plainO2', 'default', 1500, 10000), ('plainO2', 3, 1200, 10000), ('plainO2', 1, 500, 6000), ('plainO2', 2, 500, 6000)],
                rule='one evaluation = one nesting chain (kinds x depth relative to L) delivered in fragments to a cbor_load receiver running on a simulator-owned bounded stack, followed by describe/size/serialize/copy/release on the same stack; non-trivial = depth >= L-1; distinct = distinct plan digests per L'),
}
THOROUGH_L = [1, 2, 3, 8, 64, 'default']
NOT_APPLICABLE = ['C01', 'C02', 'C07', 'C10', 'C15', 'C16', 'C20']

# --------------------------------------------------------------------------- running
class Worker:
    pass

VALGRIND = ['valgrind', '-q', '--error-exitcode=88', '--exit-on-first-error=yes', '--track-origins=yes', '--num-callers=14', '--fullpath-after=']

def run_chunk(exe, prop, seed, a, b, tier, tmpdir, tag, want_digests=False, wrapper=None):
    hp = os.path.join(tmpdir, 'h-%s-%d.bin' % (tag, a))
    cmd = [exe, 'run', prop, str(seed), str(a), str(b), tier, '--hashes', hp]
    env = None
    if wrapper == 'valgrind':
        ifile = os.path.join(tmpdir, 'inflight-%s-%d' % (tag, a))
        cmd = VALGRIND + cmd + ['--inflight-file', ifile]
        env = dict(os.environ, SIM_NOFILL='1')
    dp = None
    if want_digests:
        dp = os.path.join(tmpdir, 'd-%s-%d.bin' % (tag, a)); cmd += ['--digests', dp]
    try:
        r = subprocess.run(cmd, stdout=subprocess.PIPE, stderr=subprocess.PIPE, timeout=1800 if wrapper else 900, errors='replace', text=True, env=env)
        rc, out, err = r.returncode, r.stdout, r.stderr
    except subprocess.TimeoutExpired as e:
        rc, out, err = -999, (e.stdout or b'').decode(errors='replace') if isinstance(e.stdout, bytes) else (e.stdout or ''), 'TIMEOUT'
    if wrapper == 'valgrind' and rc == 88:
        try: err += '\nINFLIGHT idx=%d why=VALGRIND\n' % int(open(ifile).read().split()[0])
        except Exception: pass
    return dict(a=a, b=b, rc=rc, out=out, err=err, hashes=hp, digests=dp)

def parse_worker(res):
    viols, done, inflight = [], None, None
    for line in res['out'].splitlines():
        if line.startswith('VIOL '):
            try: viols.append(json.loads(line[5:]))
            except Exception: pass
        elif line.startswith('DONE '):
            try: done = json.loads(line[5:])
            except Exception: pass
        elif line.startswith('INFLIGHT '):
            m = re.search(r'idx=(\d+) why=(\S+)', line)
            if m: inflight = (int(m.group(1)), m.group(2))
    if inflight is None:
        m = re.search(r'INFLIGHT idx=(\d+) why=(\S+)', res['err'])
        if m: inflight = (int(m.group(1)), m.group(2))
    return viols, done, inflight

def classify_crash(prop, rc, err, why=None):
    """Map a dead process to a violation class. Returns (cls, detail, in_library)."""
    in_lib = ('/src/cbor' in err) or (os.path.join(REPO, 'src') in err) or ('libcbor_sim.so' in err)
    m = re.search(r'ERROR: AddressSanitizer: ([\w-]+)', err)
    frames = re.findall(r'#\d+ 0x[0-9a-f]+ in (\S+) (\S+)', err)
    libfn = None
    for fn, loc in frames:
        if '/src/cbor' in loc or loc.startswith(os.path.join(REPO, 'src')):
            libfn = fn; break
    if m and (m.group(1) in ('allocator', 'out-of-memory', 'allocation-size-too-big', 'requested') or 'allocator is out of memory' in err):
        return (None, 'sanitizer ran out of memory (a resource limit of the harness, not a property violation): ' + first_lines(err, 'ERROR: AddressSanitizer', 3), False)
    if m:
        return ('%s:asan:%s:%s' % (prop, m.group(1), libfn or '?'), first_lines(err, 'ERROR: AddressSanitizer'), in_lib or libfn is not None)
    m = re.search(r'(\S+:\d+):\d+: runtime error: (.*)', err)
    if m:
        msg = re.sub(r'0x[0-9a-f]+', 'ADDR', m.group(2)); msg = re.sub(r'\d+', 'N', msg)
        loc = m.group(1)
        return ('%s:ubsan:%s:%s' % (prop, os.path.basename(loc.split(':')[0]), msg[:60]), m.group(0)[:300], '/src/' in loc or in_lib)
    m = re.search(r"Assertion `(.*?)' failed", err)
    if m:
        m2 = re.search(r'(\S+):(\d+): (\S+): Assertion', err)
        return ('%s:assert:%s' % (prop, m.group(1)[:80]), (m2.group(0) if m2 else m.group(0))[:300], bool(m2 and '/src/' in m2.group(1)) or in_lib)
    m = re.search(r'WARNING: ThreadSanitizer: ([\w -]+?) \(', err)
    if m:
        for fn, loc in re.findall(r'#\d+ (\S+) (/\S+?):\d+', err):
            if '/src/cbor' in loc or loc.startswith(os.path.join(REPO, 'src')):
                libfn = fn; break
        return ('%s:tsan:%s:%s' % (prop, m.group(1).strip().replace(' ', '-'), libfn or '?'), first_lines(err, 'WARNING: ThreadSanitizer', 30), libfn is not None or in_lib)
    if why == 'VALGRIND' or rc == 88:
        m = re.search(r'==\d+== (Conditional jump or move depends on uninitialised value|Use of uninitialised value|Invalid read|Invalid write|Invalid free|Mismatched free|Syscall param \S+ (?:points to|contains) uninitialised|Source and destination overlap)', err)
        vfn = None
        for fn, loc in re.findall(r'==\d+==\s+(?:at|by) 0x[0-9A-F]+: (\S+) \((\S+?):\d+\)', err):
            if '/src/cbor' in loc or loc.startswith(os.path.join(REPO, 'src')) or '/src/allocators.c' in loc:
                vfn = fn; break
        kind = (m.group(1) if m else 'error').replace(' ', '-')[:50]
        return ('%s:valgrind:%s:%s' % (prop, kind, vfn or '?'), first_lines(err, '==', 24), vfn is not None)
    m = re.search(r'PROTECTION-FAULT (.*)', err)
    if m:
        return ('%s:protection-fault:%s' % (prop, m.group(1).split(' detail=')[0][:110]), m.group(1)[:400], True)
    if why == 'WATCHDOG' or rc == 99 or rc == -999 or 'TIMEOUT' == err:
        # a run that does not finish in time is a limit of the harness (plans are size-bounded; client/receiver livelocks are
        # detected by deterministic call budgets inside the run), not a verdict about the library
        return (None, 'run did not finish within the watchdog', False)
    if rc in (-11, -7) or why in ('SIGSEGV', 'SIGBUS'):
        return ('%s:crash:SIGSEGV' % prop, 'process died with a memory fault', True)
    if rc == -6 or why == 'SIGABRT':
        return ('%s:crash:SIGABRT' % prop, 'process aborted: ' + err[-300:], True)
    return (None, 'exit code %s: %s' % (rc, err[-500:]), False)

def first_lines(err, marker, n=14):
    i = err.find(marker)
    return '\n'.join(err[i:].splitlines()[:n]) if i >= 0 else err[-600:]

def gen_plan(exe, prop, seed, idx, tier):
    r = sh([exe, 'gen', prop, str(seed), str(idx), tier])
    if r.returncode != 0: raise SystemExit(harness_fault('plan generation failed: ' + r.stderr[-500:]))
    return json.loads(r.stdout)

def replay_plan(exe, plan, tmpdir, timeout=300, wrapper=None):
    """Run one plan in a fresh process. Returns dict(cls, detail, digest, in_lib, ok)."""
    p = os.path.join(tmpdir, 'replay-%d-%d.json' % (os.getpid(), replay_plan.n)); replay_plan.n += 1
    with open(p, 'w') as f: json.dump(plan, f)
    try:
        cmd = [exe, 'replay', p]; env = None
        if wrapper == 'valgrind': cmd = VALGRIND + cmd; env = dict(os.environ, SIM_NOFILL='1'); timeout = max(timeout, 600)
        r = subprocess.run(cmd, stdout=subprocess.PIPE, stderr=subprocess.PIPE, timeout=timeout, errors='replace', text=True, env=env)
        rc, out, err = r.returncode, r.stdout, r.stderr
    except subprocess.TimeoutExpired:
        rc, out, err = -999, '', 'TIMEOUT'
    finally:
        try: os.unlink(p)
        except OSError: pass
    for line in out.splitlines():
        if line.startswith('VIOL '):
            v = json.loads(line[5:])
            return dict(cls=v['cls'], detail=v['detail'], digest=v.get('digest'), in_lib=True, ok=False, oracle_props=v.get('oracle_props', ''))
        if line.startswith('OK '):
            m = re.search(r'digest=(\d+)', line)
            return dict(cls=None, detail='', digest=int(m.group(1)) if m else None, in_lib=True, ok=True)
    why = None
    m = re.search(r'INFLIGHT idx=\d+ why=(\S+)', out + err)
    if m: why = m.group(1)
    if wrapper == 'valgrind' and rc == 88: why = 'VALGRIND'
    cls, detail, in_lib = classify_crash(plan.get('prop', '?'), rc, err, why)
    return dict(cls=cls, detail=detail, digest=None, in_lib=in_lib, ok=False, raw=err[-3000:], rc=rc)
replay_plan.n = 0

# --------------------------------------------------------------------------- shrinking
LIST_KEYS = ('ops', 'conns', 'cuts', 'delays', 'tasks', 'sched', 'items', 'chain', 'pre', 'ks')

def list_paths(node, path=()):
    out = []
    if isinstance(node, dict):
        for k, v in node.items():
            if isinstance(v, list) and k in LIST_KEYS: out.append(path + (k,))
            out += list_paths(v, path + (k,))
    elif isinstance(node, list):
        for i, v in enumerate(node):
            if isinstance(v, (dict, list)): out += list_paths(v, path + (i,))
    return out

def get_path(node, path):
    for k in path: node = node[k]
    return node

def set_path(node, path, val):
    for k in path[:-1]: node = node[k]
    node[path[-1]] = val

def cbor_item_end(bs, off, depth=0):
    """End offset of the well-formed item starting at off, or None. Used only to cut sequences at item boundaries while shrinking."""
    if off >= len(bs) or depth > 6000: return None
    ib = bs[off]; major, ai = ib >> 5, ib & 31
    if ai < 24: arg, hl = ai, 1
    elif ai == 24: arg, hl = (bs[off + 1] if off + 1 < len(bs) else None), 2
    elif ai == 25: arg, hl = (int.from_bytes(bs[off + 1:off + 3], 'big') if off + 3 <= len(bs) else None), 3
    elif ai == 26: arg, hl = (int.from_bytes(bs[off + 1:off + 5], 'big') if off + 5 <= len(bs) else None), 5
    elif ai == 27: arg, hl = (int.from_bytes(bs[off + 1:off + 9], 'big') if off + 9 <= len(bs) else None), 9
    elif ai == 31 and major in (2, 3, 4, 5):
        p = off + 1
        while p < len(bs) and bs[p] != 0xff:
            p = cbor_item_end(bs, p, depth + 1)
            if p is None: return None
        return p + 1 if p < len(bs) else None
    else: return None
    if arg is None: return None
    if major in (0, 1, 7): return off + hl
    if major in (2, 3): return off + hl + arg if off + hl + arg <= len(bs) else None
    if major == 6: return cbor_item_end(bs, off + hl, depth + 1)
    n = arg * (2 if major == 5 else 1); p = off + hl
    if n > len(bs): return None
    for _ in range(n):
        p = cbor_item_end(bs, p, depth + 1)
        if p is None: return None
    return p

def shrink(exe, plan, cls, tmpdir, budget_s=60, budget_n=400, wrapper=None):
    """Greedy/ddmin reduction keeping the violation class constant. Each candidate runs in a fresh process."""
    t0 = time.time(); tried = [0]
    def still(cand):
        if tried[0] >= budget_n or time.time() - t0 > budget_s: return False
        tried[0] += 1
        r = replay_plan(exe, cand, tmpdir, timeout=60, wrapper=wrapper)
        return r['cls'] == cls
    cur = json.loads(json.dumps(plan))
    progress = True
    while progress and tried[0] < budget_n and time.time() - t0 < budget_s:
        progress = False
        # 1. remove chunks of list elements
        for path in sorted(list_paths(cur), key=lambda p: (len(p), str(p))):
            try: lst = get_path(cur, path)
            except (KeyError, IndexError): continue
            n = len(lst); chunk = max(1, n // 2)
            while chunk >= 1 and len(lst) > 0:
                i = 0; removed = False
                while i < len(lst):
                    if path[-1] in ('conns', 'tasks', 'items') and len(lst) <= 1: break
                    cand = json.loads(json.dumps(cur)); l2 = get_path(cand, path); del l2[i:i + chunk]
                    if still(cand): cur = cand; lst = get_path(cur, path); removed = True; progress = True
                    else: i += chunk
                if chunk == 1: break
                chunk = max(1, chunk // 2)
        # 2. drop fault attachments and simplify integers inside ops
        for path in list_paths(cur):
            if path[-1] not in ('ops', 'pre'): continue
            try: ops = get_path(cur, path)
            except (KeyError, IndexError): continue
            for oi in range(len(ops)):
                op = ops[oi]
                if not isinstance(op, list): continue
                for fi in range(1, len(op)):
                    v = op[fi]
                    if not isinstance(v, int) or v == 0: continue
                    for nv in (0, v // 2):
                        if nv == v: continue
                        cand = json.loads(json.dumps(cur)); get_path(cand, path)[oi][fi] = nv
                        if still(cand): cur = cand; ops = get_path(cur, path); progress = True; break
        # 2b. shorten byte strings carried as hex (streams): remove byte ranges, then try to zero bytes
        def hex_paths(node, path=()):
            out = []
            if isinstance(node, dict):
                for k, v in node.items():
                    if k == 'hex' and isinstance(v, str): out.append(path + (k,))
                    else: out += hex_paths(v, path + (k,))
            elif isinstance(node, list):
                for i, v in enumerate(node): out += hex_paths(v, path + (i,))
            return out
        for path in hex_paths(cur):
            # first: drop whole leading items of a CBOR sequence (keeps the rest aligned)
            for _ in range(12):
                bs = bytes.fromhex(get_path(cur, path)); bounds = []; off = 0
                while off < len(bs):
                    e = cbor_item_end(bs, off)
                    if e is None: break
                    bounds.append(e); off = e
                dropped = False
                for b in reversed(bounds):
                    if b >= len(bs): continue
                    cand = json.loads(json.dumps(cur)); set_path(cand, path, bs[b:].hex())
                    if still(cand): cur = cand; progress = True; dropped = True; break
                if not dropped: break
            hx = get_path(cur, path); n = len(hx) // 2; chunk = max(1, n // 2)
            while chunk >= 1 and n > 1:
                i = 0
                while i < n and n > 1:
                    cand = json.loads(json.dumps(cur)); set_path(cand, path, hx[:2 * i] + hx[2 * (i + chunk):])
                    if len(get_path(cand, path)) >= 2 and still(cand): cur = cand; hx = get_path(cur, path); n = len(hx) // 2; progress = True
                    else: i += chunk
                if chunk == 1: break
                chunk = max(1, chunk // 2)
        # 3. drop optional knobs / close points
        for path in list_paths(cur):
            if path[-1] != 'conns': continue
            for ci, c in enumerate(get_path(cur, path)):
                if isinstance(c, dict) and 'close' in c:
                    cand = json.loads(json.dumps(cur)); del get_path(cand, path)[ci]['close']
                    if still(cand): cur = cand; progress = True
    return cur, tried[0]

# --------------------------------------------------------------------------- known findings
def load_known():
    p = os.path.join(VERIF, 'known_findings.json')
    if not os.path.exists(p): return []
    return json.load(open(p)).get('findings', [])

def match_known(prop, cls, detail):
    for f in load_known():
        if f.get('status') != 'known' or f.get('property') != prop: continue
        if re.search(f['match']['cls'], cls) and re.search(f['match'].get('detail', ''), detail or ''):
            return f
    return None

# --------------------------------------------------------------------------- the check
def run_property(prop, tier, seed):
    if prop in NOT_APPLICABLE:
        print('property %s is listed as not applicable to deterministic simulation (see DESIGN.md)' % prop); return 0
    if prop not in PROPS: raise SystemExit(harness_fault('unknown property ' + prop))
    cfg = PROPS[prop]
    t_start = time.time()
    tmpdir = os.path.join(BUILD, 'tmp-%s-%d' % (prop, os.getpid())); os.makedirs(tmpdir, exist_ok=True)
    os.environ['TMPDIR'] = tmpdir      # whatever the workers drop (synthetic locale directories, compiler temporaries) goes with it
    phases = list(cfg['phases'])
    if tier == 'thorough' and prop in ('C12', 'C04', 'C06', 'C03'):
        phases.append(('asan', 'g3', 0, {'C12': 60000, 'C04': 60000, 'C06': 20000, 'C03': 40000}[prop]))   # swarm over builds: buffer growth factor 3
    if tier == 'thorough' and prop in ('C03', 'C04', 'C06', 'C11'):
        phases.append(('plainO2', None, 0, 640, 'valgrind'))   # uninitialised reads, which ASan cannot see
    if prop == 'C19' and tier == 'thorough':
        phases = [('plainO2', L, 0, 6000) for L in THOROUGH_L]
    if prop == 'C19':
        # "for every build-time value L": besides the fixed small, medium and default limits, every seed picks limits of its own
        # (two in the quick tier, four in the thorough tier), so that no particular arithmetic property of the fixed ones -
        # powers of two, multiples of a block size - is shared by everything ever built
        h = int(hashlib.sha256(('C19-L-%d' % seed).encode()).hexdigest(), 16)
        extra = []
        for i in range(4 if tier == 'thorough' else 2):
            span = [(5, 200), (17, 1500), (200, 5000), (5, 64)][i]
            extra.append(span[0] + (h >> (32 * i)) % (span[1] - span[0] + 1))
        for L in extra: phases.append(('plainO2', L, 500, 3000))
    # build-flavour swarm: a slice of every check on the size-optimised, newest-dialect build
    OS_SLICE = {'C03': (4000, 40000), 'C04': (5000, 50000), 'C05': (3000, 30000), 'C06': (1500, 15000), 'C08': (30000, 300000), 'C09': (30000, 300000), 'C11': (8000, 80000),
                'C12': (3000, 30000), 'C13': (5000, 50000), 'C14': (8000, 80000), 'C17': (800, 8000), 'C18': (3000, 30000), 'C19': (400, 3000)}
    phases.append(('plainOs', None) + OS_SLICE[prop])
    scale = float(os.environ.get('VERIF_SCALE', '1'))
    total = dict(runs=0, nontrivial=0, foreign=0, sim_time=0, stats={}, samples=[], hashes=set(), chunks=0, digest=0)
    cands = []           # violation candidates: dict(cls, detail, plan, exe)
    crashes = 0
    phase_info = []
    try:
        for ph in phases:
            (flavour, L, nq, nt), wrapper = ph[:4], (ph[4] if len(ph) > 4 else None)
            exe = build(flavour, None if L in (None, 'default') else L)
            n = int((nq if tier == 'quick' else nt) * scale)
            if n <= 0: continue
            info = json.loads(sh([exe, 'info']).stdout)
            t_ph = time.time()
            chunk = max(20, min(4000, n // (JOBS * 6)))
            if wrapper: chunk = max(5, n // (JOBS * 2))
            base = 50000000 if flavour == 'plainOs' else 0     # the flavour slice explores plans of its own rather than repeating the first ones
            pending = [(a, min(a + chunk, base + n)) for a in range(base, base + n, chunk)]
            ph_runs = 0
            with ThreadPoolExecutor(max_workers=JOBS) as ex:
                futs = {ex.submit(run_chunk, exe, prop, seed, a, b, tier, tmpdir, flavour + str(L), False, wrapper): (a, b) for a, b in pending}
                while futs:
                    for fut in as_completed(list(futs)):
                        a, b = futs.pop(fut)
                        res = fut.result()
                        viols, done, inflight = parse_worker(res)
                        for v in viols:
                            cands.append(dict(cls=v['cls'], detail=v['detail'], plan=v['plan'], exe=exe, kind='oracle', wrapper=wrapper, ctx=dict(a=a, idx=v['plan'].get('idx', a), tier=tier, seed=seed)))
                        if done:
                            total['runs'] += done['runs']; ph_runs += done['runs']; total['nontrivial'] += done['nontrivial']; total['foreign'] += done['foreign']
                            total['sim_time'] += done.get('sim_time', 0); total['digest'] ^= done.get('digest', 0)
                            for k, v in done['stats'].items():
                                if k.startswith('max_'): total['stats'][k] = max(total['stats'].get(k, 0), v)
                                else: total['stats'][k] = total['stats'].get(k, 0) + v
                            if len(total['samples']) < 3: total['samples'] += done['samples'][:1]
                            try:
                                raw = open(res['hashes'], 'rb').read(); os.unlink(res['hashes'])
                                total['hashes'].update(struct.unpack('<%dQ' % (len(raw) // 8), raw))
                            except OSError: pass
                        else:
                            # the worker died: attribute to the in-flight run, then resume behind it
                            crashes += 1
                            if inflight is None:
                                cls, detail, in_lib = classify_crash(prop, res['rc'], res['err'])
                                raise SystemExit(harness_fault('worker for runs %d..%d died without naming a run: %s' % (a, b, detail)))
                            idx, why = inflight
                            cls, detail, in_lib = classify_crash(prop, res['rc'], res['err'], why)
                            if cls is None or not in_lib:
                                raise SystemExit(harness_fault('worker died outside library code at run %d: %s' % (idx, detail)))
                            plan = gen_plan(exe, prop, seed, idx, tier)
                            cands.append(dict(cls=cls, detail=detail, plan=plan, exe=exe, kind='crash', wrapper=wrapper, ctx=dict(a=a, idx=idx, tier=tier, seed=seed)))
                            total['runs'] += idx - a + 1; ph_runs += idx - a + 1
                            if idx + 1 < b and crashes < 12 and len(cands) < 40:
                                futs[ex.submit(run_chunk, exe, prop, seed, idx + 1, b, tier, tmpdir, flavour + str(L), False, wrapper)] = (idx + 1, b)
                        break
            phase_info.append(dict(wrapper=wrapper, flavour=flavour, L=info.get('max_stack'), growth=info.get('growth'), runs=ph_runs, wall_s=round(time.time() - t_ph, 2)))
        # ---------------------------------------------------------------- violations: gate, shrink, replay, known-findings
        reported, known_lines, fault, unconfirmed = [], [], None, []
        groups = {}
        for c in cands:
            groups.setdefault(c['cls'], []).append(c)
        for cls, group in list(groups.items())[:6]:
            confirmed = None
            for c in group[:3]:
                exe = c['exe']
                r1 = replay_plan(exe, c['plan'], tmpdir, wrapper=c.get('wrapper')); r2 = replay_plan(exe, c['plan'], tmpdir, wrapper=c.get('wrapper'))
                if r1['cls'] == cls and r2['cls'] == cls and r1.get('digest') == r2.get('digest'):
                    confirmed = ('plan', c, r1); break
            if not confirmed:
                # sanitizer reports can depend on what the process did before the run (TSan keeps a bounded, pseudo-randomly evicted
                # access history): replay the run inside the same process context - the chunk it was found in - twice
                for c in group[:2]:
                    x = c['ctx']; got = []
                    for _ in range(2):
                        res = run_chunk(c['exe'], prop, x['seed'], x['a'], x['idx'] + 1, x['tier'], tmpdir, 'ctx')
                        v, d, infl = parse_worker(res)
                        if c['kind'] == 'crash':
                            k, det, _in = classify_crash(prop, res['rc'], res['err'], infl[1] if infl else None)
                            got.append((infl[0] if infl else None, k))
                        else:
                            hit = [vv for vv in v if vv['plan'].get('idx') == x['idx'] and vv['cls'] == cls]
                            got.append((x['idx'], cls) if hit else (None, None))
                    if got[0] == got[1] == (x['idx'], cls):
                        confirmed = ('context', c, dict(cls=cls, detail=c['detail'], in_lib=True)); break
            if not confirmed:
                unconfirmed.append('%s (seed %s idx %s)' % (cls, seed, group[0]['plan'].get('idx'))); continue
            kind, c, r1 = confirmed
            exe = c['exe']
            if not r1.get('in_lib', True):
                fault = 'report %s has no frame inside the library' % cls; break
            flavour = [f for f in FLAVOURS if ('sim-%s-' % f) in exe][0]
            if kind == 'plan':
                small, tried = shrink(exe, c['plan'], cls, tmpdir, budget_s=40 if tier == 'quick' else 120, wrapper=c.get('wrapper'))
                r3 = replay_plan(exe, small, tmpdir, wrapper=c.get('wrapper'))
                if r3['cls'] != cls: small, r3 = c['plan'], r1
                doc = dict(property=prop, violation=dict(cls=cls, detail=r3['detail']), seed=seed, flavour=flavour, wrapper=c.get('wrapper'), L=c['plan'].get('L'), shrink_replays=tried, plan=small)
            else:
                r3 = r1
                doc = dict(property=prop, violation=dict(cls=cls, detail=r3['detail']), seed=seed, flavour=flavour, L=c['plan'].get('L'), shrink_replays=0, plan=c['plan'],
                           context=dict(c['ctx'], note='the report depends on sanitizer state built up by the preceding runs of the same worker; replay re-executes runs a..idx in one process'))
            digest = hashlib.sha256(json.dumps(doc['plan'], sort_keys=True).encode()).hexdigest()[:12]
            os.makedirs(REPLAYS, exist_ok=True)
            rp = os.path.join(REPLAYS, '%s-%s.json' % (prop, digest))
            with open(rp, 'w') as f:
                json.dump(doc, f, indent=1)
            kf = match_known(prop, cls, r3['detail'])
            if kf: known_lines.append('KNOWN-FINDING: property=%s %s' % (prop, kf['what']))
            else: reported.append((cls, r3['detail'], rp))
        if unconfirmed and not reported and not fault:
            fault = 'violation(s) that did not reproduce in fresh processes: ' + '; '.join(unconfirmed)
        elif unconfirmed:
            log('note: not reproduced in fresh processes (not reported): ' + '; '.join(unconfirmed))
        wall = time.time() - t_start
        write_evidence(prop, tier, seed, cfg, total, phase_info, wall, len(reported), known_lines, crashes)
        if fault:
            return harness_fault(fault)
        for l in known_lines: print(l)
        for cls, detail, rp in reported:
            print('violation class: %s' % cls)
            print('detail: %s' % detail.replace('\n', '\n        '))
            print('VIOLATION property=%s replay=%s' % (prop, rp))
        rate = total['runs'] / max(wall, 1e-9)
        print('%s %s: %d simulated runs (%d non-trivial, %d distinct) in %.1fs = %.0f runs/h; seed %d; %d violation(s), %d known finding(s)' %
              (prop, tier, total['runs'], total['nontrivial'], len(total['hashes']), wall, rate * 3600, seed, len(reported), len(known_lines)))
        return 1 if reported else 0
    finally:
        shutil.rmtree(tmpdir, ignore_errors=True)
        prune_build()

def write_evidence(prop, tier, seed, cfg, total, phase_info, wall, nviol, known_lines, crashes):
    st = total['stats']
    faults = {k[len('fault_fired_'):]: v for k, v in st.items() if k.startswith('fault_fired_')}
    cov = dict(
        evaluations=total['runs'], distinct_nontrivial=len(total['hashes']), rule=cfg['rule'],
        samples=total['samples'][:3] if total['samples'] else [],
        nontrivial_runs=total['nontrivial'],
        runs_per_hour=int(total['runs'] / max(wall, 1e-9) * 3600), seeds_per_hour=int(total['runs'] / max(wall, 1e-9) * 3600),
        simulated_time_units=total['sim_time'],
        faults_fired=faults, counters={k: v for k, v in sorted(st.items()) if not k.startswith('fault_fired_')},
        phases=phase_info, worker_crashes_attributed=crashes, foreign_oracle_failures_ignored=total['foreign'],
        components=dict(real=['all of libcbor, compiled from the working tree of %s' % REPO, 'libc, libm'],
                        stub=['allocator triple (simalloc)', 'byte transport (simnet)', 'receiving / sending clients', 'FILE* sink for cbor_describe', 'thread scheduler (simsched)']),
        known_findings=known_lines, exhaustive=False)
    ev = dict(property_id=prop, tier=tier, seed=seed, level=cfg['level'], coverage=cov,
              assumptions=ASSUME_ALLOC + cfg.get('assumptions', []), wall_s=round(wall, 2), violations=nviol)
    os.makedirs(EVIDENCE, exist_ok=True)
    with open(os.path.join(EVIDENCE, prop + '.json'), 'w') as f:
        json.dump(ev, f, indent=1)

# --------------------------------------------------------------------------- other commands
def cmd_replay(path):
    doc = json.load(open(path))
    plan = doc.get('plan', doc)
    prop = doc.get('property', plan.get('prop'))
    flavour = doc.get('flavour', 'asan')
    L = doc.get('L')
    exe = build(flavour, L)
    tmpdir = os.path.join(BUILD, 'tmp-replay-%d' % os.getpid()); os.makedirs(tmpdir, exist_ok=True)
    os.environ['TMPDIR'] = tmpdir      # whatever the workers drop (synthetic locale directories, compiler temporaries) goes with it
    try:
        if 'context' in doc:
            x = doc['context']
            res = run_chunk(exe, prop, x['seed'], x['a'], x['idx'] + 1, x['tier'], tmpdir, 'ctx')
            v, d, infl = parse_worker(res)
            if d is not None and not v: r = dict(ok=True, cls=None, detail='', digest=d.get('digest'))
            else:
                hit = [vv for vv in v if vv['plan'].get('idx') == x['idx']]
                if hit: r = dict(ok=False, cls=hit[0]['cls'], detail=hit[0]['detail'], digest=None)
                else:
                    k, det, _in = classify_crash(prop, res['rc'], res['err'], infl[1] if infl else None)
                    r = dict(ok=False, cls=k, detail=det, digest=None)
        else:
            r = replay_plan(exe, plan, tmpdir, wrapper=doc.get('wrapper'))
    finally:
        shutil.rmtree(tmpdir, ignore_errors=True)
    if r['ok']:
        print('replay of %s: property %s held (digest %s)' % (path, prop, r['digest'])); return 0
    if r['cls'] is None: return harness_fault('replay died: ' + r['detail'])
    print('violation class: %s' % r['cls']); print('detail: %s' % r['detail'])
    kf = match_known(prop, r['cls'], r['detail'])
    if kf:
        print('KNOWN-FINDING: property=%s %s' % (prop, kf['what'])); return 0
    print('VIOLATION property=%s replay=%s' % (prop, path))
    return 1

def cmd_setup():
    t0 = time.time()
    for fl in ('asan', 'plainO2', 'plainO0', 'plainOs', 'tsan'):
        build(fl)
    for L in (3, 1, 2): build('plainO2', L)
    build('asan', 3)
    print('setup complete in %.1fs' % (time.time() - t0))
    return 0

def cmd_determinism(args):
    n = int(args[0]) if args else 300
    bad = 0; checked = 0
    tmpdir = os.path.join(BUILD, 'tmp-det-%d' % os.getpid()); os.makedirs(tmpdir, exist_ok=True)
    os.environ['TMPDIR'] = tmpdir      # whatever the workers drop (synthetic locale directories, compiler temporaries) goes with it
    try:
        for prop, cfg in PROPS.items():
            for (flavour, L, nq, nt) in [ph[:4] for ph in cfg['phases']]:
                exe = build(flavour, None if L in (None, 'default') else L)
                m = min(n, nq)
                ref = None
                for workers in (1, 4, 16):
                    chunk = max(1, m // workers)
                    digs = {}
                    with ThreadPoolExecutor(max_workers=workers) as ex:
                        for res in ex.map(lambda ab: run_chunk(exe, prop, 12345, ab[0], ab[1], 'quick', tmpdir, 'det%d' % workers, True), [(a, min(a + chunk, m)) for a in range(0, m, chunk)]):
                            if res['digests'] and os.path.exists(res['digests']):
                                raw = open(res['digests'], 'rb').read(); vals = struct.unpack('<%dQ' % (len(raw) // 8), raw)
                                for i, v in enumerate(vals): digs[res['a'] + i] = v
                    if ref is None: ref = digs
                    else:
                        for k in ref:
                            checked += 1
                            if digs.get(k) != ref[k]: bad += 1; print('NONDETERMINISM prop=%s flavour=%s idx=%d workers=%d' % (prop, flavour, k, workers))
                print('determinism %s/%s: %d runs x 3 worker counts compared' % (prop, flavour, m))
    finally:
        shutil.rmtree(tmpdir, ignore_errors=True)
    print('determinism: %d comparisons, %d mismatches' % (checked, bad))
    return 0 if bad == 0 else 2

def main(argv):
    if not argv: print(__doc__); return 2
    seed = int(os.environ.get('VERIF_SEED', '1') or '1')
    if argv[0] == 'setup': return cmd_setup()
    if argv[0] == '--replay': return cmd_replay(argv[1])
    if argv[0] == 'selftest-determinism': return cmd_determinism(argv[1:])
    if argv[0] == 'selftest-mutants':
        import mutants; return mutants.main(argv[1:])
    prop = argv[0]
    tier = os.environ.get('VERIF_TIER', 'quick') or 'quick'
    if '--tier' in argv: tier = argv[argv.index('--tier') + 1]
    if tier not in ('quick', 'thorough'): tier = 'quick'
    return run_property(prop, tier, seed)
