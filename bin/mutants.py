"""selftest-mutants: apply each patch in /verif/mutants and /verif/seeded to a scratch copy of the repository
(outside /repo and /verif), run the quick check of the property it targets against that copy, expect a VIOLATION.
The scratch copy and its build output are removed as soon as the mutant has been judged."""
import os, sys, json, subprocess, shutil, time, glob, re
VERIF = os.path.dirname(os.path.dirname(os.path.abspath(__file__)))
REPO = os.environ.get('VERIF_REPO', '/repo')

def mutant_list(benign=False):
    out = []
    if benign:
        # negative controls: behaviour-preserving changes (written by independent sub-agents told to keep the property true);
        # every listed check must stay quiet on them
        for d in sorted(glob.glob(os.path.join(VERIF, 'benign', '*'))):
            meta = os.path.join(d, 'meta.json'); patch = os.path.join(d, 'patch.diff')
            if os.path.exists(meta) and os.path.exists(patch):
                m = json.load(open(meta))
                out.append(dict(name='benign/' + os.path.basename(d), patch=patch, props=m.get('checks') or [m['property']], expect='clean'))
        return out
    for p in sorted(glob.glob(os.path.join(VERIF, 'mutants', '*.diff'))):
        props = []
        for line in open(p):
            if line.startswith('# properties:'): props = [x.strip() for x in line.split(':', 1)[1].split(',')]
        out.append(dict(name=os.path.basename(p)[:-5], patch=p, props=props))
    for d in sorted(glob.glob(os.path.join(VERIF, 'seeded', '*'))):
        meta = os.path.join(d, 'meta.json'); patch = os.path.join(d, 'patch.diff')
        if os.path.exists(meta) and os.path.exists(patch):
            m = json.load(open(meta))
            out.append(dict(name='seeded/' + os.path.basename(d), patch=patch, props=m.get('detected_by') or [m['property']], expect=m.get('expect', 'detected')))
    return out

def run_one(m, tier='quick', with_tests=False, scale=None):
    base = os.path.join(os.environ.get('TMPDIR', '/var/tmp'), 'verif-mut-%d' % os.getpid(), m['name'].replace('/', '_'))
    shutil.rmtree(base, ignore_errors=True); os.makedirs(base)
    scratch = os.path.join(base, 'repo'); os.makedirs(scratch)
    try:
        subprocess.run(['rsync', '-a', '--exclude', '_build', '--exclude', '.git', '--exclude', 'doc', '--exclude', 'doxygen-theme', REPO + '/', scratch + '/'], check=True)
        r = subprocess.run(['patch', '-p1', '-s', '-i', m['patch']], cwd=scratch, stdout=subprocess.PIPE, stderr=subprocess.STDOUT, text=True)
        if r.returncode != 0: return dict(name=m['name'], status='PATCH-FAILED', detail=r.stdout[-300:])
        res = dict(name=m['name'], results={})
        if with_tests:
            b = os.path.join(base, 'tb')
            t = subprocess.run('cmake -S %s -B %s -G Ninja -DWITH_TESTS=ON -DWITH_EXAMPLES=OFF -DCMAKE_BUILD_TYPE=RelWithDebInfo -DCMAKE_C_FLAGS=-Wno-error >/dev/null 2>&1 && cmake --build %s >/dev/null 2>&1 && ctest --test-dir %s -j8 --timeout 900 2>&1 | tail -3' % (scratch, b, b, b), shell=True, stdout=subprocess.PIPE, text=True)
            res['tests'] = 'pass' if '100% tests passed' in t.stdout else 'FAIL: ' + t.stdout[-200:]
        for prop in m['props']:
            env = dict(os.environ, VERIF_REPO=scratch, VERIF_BUILD=os.path.join(base, 'vb'), VERIF_REPLAYS=os.path.join(base, 'replays'), VERIF_EVIDENCE=os.path.join(base, 'evidence'))
            if scale: env['VERIF_SCALE'] = str(scale)
            t0 = time.time()
            c = subprocess.run([os.path.join(VERIF, 'bin', 'check'), prop, '--tier', tier], env=env, stdout=subprocess.PIPE, stderr=subprocess.PIPE, text=True)
            cls = re.findall(r'violation class: (.*)', c.stdout)
            res['results'][prop] = dict(exit=c.returncode, detected=(c.returncode == 1 and 'VIOLATION property=%s' % prop in c.stdout), classes=cls[:4], wall_s=round(time.time() - t0, 1),
                                        tail=c.stdout[-300:] if c.returncode not in (0, 1) else '')
        return res
    finally:
        shutil.rmtree(base, ignore_errors=True)

def main(argv):
    tier = 'quick'; with_tests = False; names = []; benign = False; append = False
    for a in argv:
        if a == '--thorough': tier = 'thorough'
        elif a == '--tests': with_tests = True
        elif a == '--benign': benign = True
        elif a == '--append': append = True      # add the rows of this (filtered) run to the existing RESULTS.md
        else: names.append(a)
    ms = [m for m in mutant_list(benign) if not names or any(n in m['name'] for n in names)]
    missed = 0; table = []; table_all = []
    for m in ms:
        r = run_one(m, tier, with_tests)
        table_all.append(r)
        if 'results' not in r: print('%-48s %s %s' % (r['name'], r['status'], r.get('detail', ''))); missed += 1; continue
        any_det = any(x['detected'] for x in r['results'].values())
        exp = m.get('expect', 'detected')
        ok = any_det if exp == 'detected' else (all(x['exit'] == 0 for x in r['results'].values()) if exp == 'clean' else True)
        if not ok: missed += 1
        for prop, x in r['results'].items():
            print('%-48s %s %-9s exit=%d %5.1fs %s %s' % (r['name'], prop, ('ALARM' if x['exit'] != 0 else 'quiet') if exp == 'clean' else ('DETECTED' if x['detected'] else 'missed'), x['exit'], x['wall_s'], r.get('tests', ''), '; '.join(x['classes'])[:150]), flush=True)
            if x['tail']: print('    ' + x['tail'].replace('\n', '\n    '))
        table.append(r)
    try: shutil.rmtree(os.path.join(os.environ.get('TMPDIR', '/var/tmp'), 'verif-mut-%d' % os.getpid()), ignore_errors=True)
    except Exception: pass
    if benign:
        print('benign controls: %d run, %d raised an alarm' % (len(ms), missed)); return 0 if missed == 0 else 1
    if not names:
        # full run: refresh the table that DESIGN.md refers to
        with open(os.path.join(VERIF, 'mutants', 'RESULTS.md'), 'w') as f:
            f.write('# Sensitivity: which check catches which change\n\nGenerated by `bin/check selftest-mutants%s` (tier %s). `mutants/*.diff` are hand-written; `seeded/*` were written by independent sub-agents from the property text alone and confirmed in a scratch worktree (see each `meta.json`).\n\n' % (' --tests' if with_tests else '', tier))
            f.write('| change | what it does | property | result | violation class(es) reported | check wall s | existing tests |\n|---|---|---|---|---|---|---|\n')
            for m, r in zip(ms, table_all):
                desc = ''
                try:
                    if m['name'].startswith('seeded/'):
                        notes = open(os.path.join(VERIF, m['name'], 'NOTES.md')).read()
                        desc = ' '.join(notes.split('\n\n')[1].split())[:160] if '\n\n' in notes else ''
                    else:
                        desc = [l[2:].strip() for l in open(m['patch']) if l.startswith('# ') and not l.startswith('# properties')][0]
                except Exception: pass
                if 'results' not in r: f.write('| %s | %s | - | %s | | | |\n' % (m['name'], desc, r.get('status'))); continue
                for prop, x in r['results'].items():
                    f.write('| %s | %s | %s | %s | %s | %s | %s |\n' % (m['name'], desc.replace('|', '/'), prop, 'DETECTED' if x['detected'] else 'missed (exit %d)' % x['exit'], '; '.join(x['classes'])[:200].replace('|', '/'), x['wall_s'], r.get('tests', 'not run')))
            f.write('\n%d changes, %d not detected.\n' % (len(ms), missed))
    if names and append and not benign:
        path = os.path.join(VERIF, 'mutants', 'RESULTS.md')
        lines = open(path).read().rstrip('\n').split('\n')
        m_tot = re.match(r'(\d+) changes, (\d+) not detected\.', lines[-1]) if lines else None
        body = lines[:-1] if m_tot else lines
        while body and body[-1] == '': body.pop()
        for m, r in zip(ms, table_all):
            desc = ''
            try: desc = [l[2:].strip() for l in open(m['patch']) if l.startswith('# ') and not l.startswith('# properties')][0]
            except Exception: pass
            if 'results' not in r: body.append('| %s | %s | - | %s | | | |' % (m['name'], desc, r.get('status'))); continue
            for prop, x in r['results'].items():
                body.append('| %s | %s | %s | %s | %s | %s | %s |' % (m['name'], desc.replace('|', '/'), prop, 'DETECTED' if x['detected'] else 'missed (exit %d)' % x['exit'], '; '.join(x['classes'])[:200].replace('|', '/'), x['wall_s'], r.get('tests', 'not run')))
        tot = (int(m_tot.group(1)) if m_tot else 0) + len(ms); mis = (int(m_tot.group(2)) if m_tot else 0) + missed
        open(path, 'w').write('\n'.join(body) + '\n\n%d changes, %d not detected.\n' % (tot, mis))
    out = os.environ.get('VERIF_MUTANT_REPORT')
    if out: json.dump(table, open(out, 'w'), indent=1)
    print('mutants: %d run, %d not detected' % (len(ms), missed))
    return 0 if missed == 0 else 1
